# sourced by every script in /verif: offline Go toolchain settings
export GOFLAGS=-mod=mod GOPROXY=off GOSUMDB=off GOTOOLCHAIN=local
export CARGO_NET_OFFLINE=true PIP_NO_INDEX=1
export VERIF_ROOT=/verif
export GOCACHE=/verif/.build/gocache
export GOTMPDIR=/verif/.build/tmp
export GO=go1.26.8
mkdir -p "$GOCACHE" "$GOTMPDIR"
