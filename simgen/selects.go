package main

import (
	"fmt"
	"go/ast"
	"go/format"
	"go/parser"
	"go/token"
	"sort"
	"strings"
)

// rewriteSelects makes Go's choice among several READY select cases a decision of the
// simulator: a select with two or more communication clauses is preceded by a poll phase
// that tries the clauses one at a time in an order given by simorder.SelectPerm(site, n)
// (a function of the run's seed and the site) and only then falls back to the original,
// blocking select. A select can only face a choice when several cases are ready on entry
// (a parked select is completed by the first channel operation that arrives), so the
// rewritten code takes exactly one of the outcomes the original could take, and which one
// is now repeatable and varies with the seed.
//
// The rewrite is textual over positions of a parsed file (bodies are copied verbatim, so
// `break`, `continue`, `return` and short variable declarations in clauses keep their
// meaning: no loop is introduced). It returns the new source and the number of selects
// rewritten.
func rewriteSelects(src, name string) (string, int, error) {
	fset := token.NewFileSet()
	f, err := parser.ParseFile(fset, name, src, parser.ParseComments)
	if err != nil {
		return "", 0, err
	}
	var sels []*ast.SelectStmt
	ast.Inspect(f, func(n ast.Node) bool {
		if s, ok := n.(*ast.SelectStmt); ok && commClauses(s) >= 2 {
			sels = append(sels, s)
		}
		return true
	})
	if len(sels) == 0 {
		return src, 0, nil
	}
	// selects that end a function with results and whose clauses all terminate: the rewritten
	// block is not a terminating statement for the compiler, so a panic is appended
	terminal := map[*ast.SelectStmt]bool{}
	markLast := func(ft *ast.FuncType, body *ast.BlockStmt) {
		if body == nil || ft.Results == nil || len(ft.Results.List) == 0 || len(body.List) == 0 {
			return
		}
		if s, ok := body.List[len(body.List)-1].(*ast.SelectStmt); ok {
			all := true
			for _, c := range s.Body.List {
				cc := c.(*ast.CommClause)
				if len(cc.Body) == 0 {
					all = false
					break
				}
				switch cc.Body[len(cc.Body)-1].(type) {
				case *ast.ReturnStmt:
				default:
					all = false
				}
			}
			if all {
				terminal[s] = true
			}
		}
	}
	ast.Inspect(f, func(n ast.Node) bool {
		switch fn := n.(type) {
		case *ast.FuncDecl:
			markLast(fn.Type, fn.Body)
		case *ast.FuncLit:
			markLast(fn.Type, fn.Body)
		}
		return true
	})
	off := func(p token.Pos) int { return fset.Position(p).Offset }
	counter := 0
	var render func(start, end int) string
	transform := func(s *ast.SelectStmt) string {
		counter++
		id := counter
		line := fset.Position(s.Pos()).Line
		var cls []*ast.CommClause
		for _, c := range s.Body.List {
			cc := c.(*ast.CommClause)
			if cc.Comm != nil {
				cls = append(cls, cc)
			}
		}
		n := len(cls)
		var b strings.Builder
		fmt.Fprintf(&b, "{\n_sd%d := false\n_sp%d := simorder.SelectPerm(%q, %d)\n", id, id, fmt.Sprintf("%s:%d", name, line), n)
		for k := 0; k < n; k++ {
			fmt.Fprintf(&b, "if !_sd%d {\nswitch _sp%d[%d] {\n", id, id, k)
			for i, cc := range cls {
				comm := src[off(cc.Comm.Pos()):off(cc.Comm.End())]
				body := ""
				if len(cc.Body) > 0 {
					body = render(off(cc.Body[0].Pos()), off(cc.Body[len(cc.Body)-1].End()))
				}
				fmt.Fprintf(&b, "case %d:\nselect {\ncase %s:\n_sd%d = true\n%s\ndefault:\n}\n", i, comm, id, body)
			}
			b.WriteString("}\n}\n")
		}
		fmt.Fprintf(&b, "if !_sd%d {\n%s\n}\n}", id, "select "+render(off(s.Body.Pos()), off(s.Body.End())))
		if terminal[s] {
			b.WriteString("\npanic(\"unreachable: every clause of the select above returns\")")
		}
		return b.String()
	}
	render = func(start, end int) string {
		// outermost qualifying selects inside [start, end)
		var in []*ast.SelectStmt
		for _, s := range sels {
			if off(s.Pos()) >= start && off(s.End()) <= end {
				in = append(in, s)
			}
		}
		sort.Slice(in, func(i, j int) bool { return off(in[i].Pos()) < off(in[j].Pos()) })
		var out strings.Builder
		cur := start
		for _, s := range in {
			if off(s.Pos()) < cur {
				continue // nested in one already handled
			}
			out.WriteString(src[cur:off(s.Pos())])
			out.WriteString(transform(s))
			cur = off(s.End())
		}
		out.WriteString(src[cur:end])
		return out.String()
	}
	res := render(0, len(src))
	if !strings.Contains(res, "\"nrisim/simorder\"") {
		// add the import after the package clause
		i := strings.Index(res, "\nimport (")
		if i >= 0 {
			res = res[:i] + "\nimport (\n\t\"nrisim/simorder\"" + res[i+len("\nimport ("):]
		} else {
			j := strings.Index(res, "\npackage ")
			k := j + 1 + strings.Index(res[j+1:], "\n")
			res = res[:k] + "\n\nimport \"nrisim/simorder\"\n" + res[k:]
		}
	}
	fm, err := format.Source([]byte(res))
	if err != nil {
		return "", 0, fmt.Errorf("rewritten %s does not parse: %v", name, err)
	}
	return string(fm), counter, nil
}

// insertYields makes the moment right after a channel receive a scheduling point: a goroutine that was
// woken by a receive (in a select clause or a plain receive statement) otherwise runs on to its next
// lock without the simulator being able to let anybody else in, although in reality anything can
// happen in between ("Start() got the Configure result but has not set its started flag yet").
// Textual insertions of simorder.Yield(site) calls; returns the new source and their number.
func insertYields(src, name string) (string, int, error) {
	fset := token.NewFileSet()
	f, err := parser.ParseFile(fset, name, src, parser.ParseComments)
	if err != nil {
		return "", 0, err
	}
	off := func(p token.Pos) int { return fset.Position(p).Offset }
	isRecv := func(st ast.Stmt) bool {
		switch x := st.(type) {
		case *ast.ExprStmt:
			u, ok := x.X.(*ast.UnaryExpr)
			return ok && u.Op == token.ARROW
		case *ast.AssignStmt:
			if len(x.Rhs) == 1 {
				u, ok := x.Rhs[0].(*ast.UnaryExpr)
				return ok && u.Op == token.ARROW
			}
		}
		return false
	}
	type ins struct {
		at   int
		text string
	}
	var list []ins
	site := func(p token.Pos) string { return fmt.Sprintf("%s:%d", name, fset.Position(p).Line) }
	ast.Inspect(f, func(n ast.Node) bool {
		switch x := n.(type) {
		case *ast.SelectStmt:
			// a non-blocking poll that found nothing and acts on it ("not closed yet, so close it"): the
			// non-empty default clause of a select is a scheduling point too (NRI packages only)
			if !strings.HasPrefix(name, "ttrpc/") && commClauses(x) > 0 {
				for _, c := range x.Body.List {
					if cc, ok := c.(*ast.CommClause); ok && cc.Comm == nil && len(cc.Body) > 0 {
						list = append(list, ins{off(cc.Colon) + 1, fmt.Sprintf(" simorder.Yield(%q);", site(cc.Pos()))})
					}
				}
			}
		case *ast.CommClause:
			if x.Comm != nil && isRecv(x.Comm) {
				list = append(list, ins{off(x.Colon) + 1, fmt.Sprintf(" simorder.Yield(%q);", site(x.Pos()))})
			}
		case *ast.BlockStmt:
			for _, st := range x.List {
				if isRecv(st) {
					list = append(list, ins{off(st.End()), fmt.Sprintf("; simorder.Yield(%q)", site(st.Pos()))})
				}
			}
		case *ast.CaseClause:
			for _, st := range x.Body {
				if isRecv(st) {
					list = append(list, ins{off(st.End()), fmt.Sprintf("; simorder.Yield(%q)", site(st.Pos()))})
				}
			}
		}
		return true
	})
	if len(list) == 0 {
		return src, 0, nil
	}
	sort.Slice(list, func(i, j int) bool { return list[i].at > list[j].at })
	res := src
	for _, in := range list {
		res = res[:in.at] + in.text + res[in.at:]
	}
	if !strings.Contains(res, "\"nrisim/simorder\"") {
		i := strings.Index(res, "\nimport (")
		if i >= 0 {
			res = res[:i] + "\nimport (\n\t\"nrisim/simorder\"" + res[i+len("\nimport ("):]
		} else {
			j := strings.Index(res, "\npackage ")
			k := j + 1 + strings.Index(res[j+1:], "\n")
			res = res[:k] + "\n\nimport \"nrisim/simorder\"\n" + res[k:]
		}
	}
	fm, err := format.Source([]byte(res))
	if err != nil {
		return "", 0, fmt.Errorf("%s with yields does not parse: %v", name, err)
	}
	return string(fm), len(list), nil
}

func commClauses(s *ast.SelectStmt) int {
	n := 0
	for _, c := range s.Body.List {
		if cc, ok := c.(*ast.CommClause); ok && cc.Comm != nil {
			n++
		}
	}
	return n
}
