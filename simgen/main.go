// simgen reads the current working tree of containerd/nri and produces, under an
// output directory, everything needed to compile it for the simulator without
// touching the repository:
//
//   - overlay.json for `go build -overlay`: every non-test file of the simulated
//     packages with (1) the "sync" import redirected to nrisim/simsync, and
//     (2) every `range` over a map rewritten to range over simorder.Seq2(m),
//     which iterates in a seed-chosen permutation;
//   - one added file pkg/adaptation/zz_verif_export.go exporting the accept loop
//     for an arbitrary net.Listener;
//   - a scratch copy of ttrpc (module cache files cannot be overlaid) with the same
//     import redirect, a canonical order for its one relevant map range and the
//     message-size limit turned into a variable (default unchanged).
//
// Optional -mutant <file>: a JSON list of {file, old, new} textual edits applied to the
// generated copies only (sensitivity testing; /repo is never modified).
package main

import (
	"bytes"
	"encoding/json"
	"flag"
	"fmt"
	"go/ast"
	"go/format"
	"go/token"
	"go/types"
	"os"
	"path/filepath"
	"sort"
	"strings"

	"golang.org/x/tools/go/packages"
)

var simPkgs = []string{
	"github.com/containerd/nri/pkg/adaptation",
	"github.com/containerd/nri/pkg/stub",
	"github.com/containerd/nri/pkg/net",
	"github.com/containerd/nri/pkg/net/multiplex",
	"github.com/containerd/nri/pkg/runtime-tools/generate",
	"github.com/containerd/nri/pkg/api",
}

type edit struct {
	File string `json:"file"`
	Old  string `json:"old"`
	New  string `json:"new"`
	All  bool   `json:"all,omitempty"`
}

func die(f string, a ...any) {
	fmt.Fprintf(os.Stderr, "simgen: "+f+"\n", a...)
	os.Exit(2)
}

func main() {
	repo := flag.String("repo", "/repo", "nri working tree")
	out := flag.String("out", "/verif/.build", "output directory")
	ttrpcSrc := flag.String("ttrpc", "", "ttrpc module source dir (module cache)")
	mutant := flag.String("mutant", "", "JSON file with textual edits for the generated copies")
	flag.Parse()

	var edits []edit
	if *mutant != "" {
		b, err := os.ReadFile(*mutant)
		if err != nil {
			die("%v", err)
		}
		var m struct {
			Edits []edit `json:"edits"`
		}
		if err := json.Unmarshal(b, &m); err != nil {
			die("mutant %s: %v", *mutant, err)
		}
		edits = m.Edits
	}
	used := make([]bool, len(edits))

	ovDir := filepath.Join(*out, "ov")
	os.RemoveAll(ovDir)
	if err := os.MkdirAll(ovDir, 0o755); err != nil {
		die("%v", err)
	}

	cfg := &packages.Config{
		Mode: packages.NeedName | packages.NeedFiles | packages.NeedCompiledGoFiles | packages.NeedSyntax |
			packages.NeedTypes | packages.NeedTypesInfo | packages.NeedImports | packages.NeedDeps,
		Dir:   *repo,
		Tests: false,
		Env:   os.Environ(),
	}
	pkgs, err := packages.Load(cfg, simPkgs...)
	if err != nil {
		die("load: %v", err)
	}
	overlay := map[string]string{}
	type site struct {
		Pos  string `json:"pos"`
		Expr string `json:"expr"`
	}
	var sites []site
	nsync := 0
	nselects := 0
	nyields := 0
	var funcs []string
	for _, p := range pkgs {
		if len(p.Errors) > 0 {
			die("package %s does not type-check: %v", p.PkgPath, p.Errors[0])
		}
		for i, f := range p.Syntax {
			name := p.CompiledGoFiles[i]
			if strings.HasSuffix(name, "_test.go") || strings.HasSuffix(name, ".pb.go") {
				continue
			}
			changed := false
			// (1) sync import
			noSync := strings.HasSuffix(p.PkgPath, "/pkg/api") || strings.HasSuffix(p.PkgPath, "/generate")
			for _, im := range f.Imports {
				if im.Path.Value == `"sync"` && !noSync {
					im.Path.Value = `"nrisim/simsync"`
					im.Name = ast.NewIdent("sync")
					changed = true
					nsync++
				}
			}
			// (1b) reach probes: one counter per function of the simulated packages
			if !strings.HasSuffix(p.PkgPath, "/pkg/api") {
				relf, _ := filepath.Rel(*repo, name)
				for _, d := range f.Decls {
					fd, ok := d.(*ast.FuncDecl)
					if !ok || fd.Body == nil {
						continue
					}
					fn := fd.Name.Name
					if fd.Recv != nil && len(fd.Recv.List) > 0 {
						var rb bytes.Buffer
						format.Node(&rb, p.Fset, fd.Recv.List[0].Type)
						fn = "(" + rb.String() + ")." + fn
					}
					id := len(funcs)
					funcs = append(funcs, relf+": "+fn)
					hit := &ast.ExprStmt{X: &ast.CallExpr{
						Fun:  &ast.SelectorExpr{X: ast.NewIdent("simorder"), Sel: ast.NewIdent("Hit")},
						Args: []ast.Expr{&ast.BasicLit{Kind: token.INT, Value: fmt.Sprint(id)}},
					}}
					fd.Body.List = append([]ast.Stmt{hit}, fd.Body.List...)
					addImport(f, "nrisim/simorder")
					changed = true
				}
			}
			// (2) map ranges
			needOrder := false
			ast.Inspect(f, func(n ast.Node) bool {
				rs, ok := n.(*ast.RangeStmt)
				if !ok {
					return true
				}
				tv, ok := p.TypesInfo.Types[rs.X]
				if !ok {
					return true
				}
				if _, isMap := tv.Type.Underlying().(*types.Map); !isMap {
					return true
				}
				var buf bytes.Buffer
				format.Node(&buf, p.Fset, rs.X)
				pos := p.Fset.Position(rs.Pos())
				rel, _ := filepath.Rel(*repo, pos.Filename)
				sites = append(sites, site{Pos: fmt.Sprintf("%s:%d", rel, pos.Line), Expr: buf.String()})
				rs.X = &ast.CallExpr{
					Fun:  &ast.SelectorExpr{X: ast.NewIdent("simorder"), Sel: ast.NewIdent("Seq2")},
					Args: []ast.Expr{&ast.BasicLit{Kind: token.STRING, Value: fmt.Sprintf("%q", fmt.Sprintf("%s:%d", filepath.Base(rel), pos.Line))}, rs.X},
				}
				needOrder = true
				changed = true
				return true
			})
			if needOrder {
				addImport(f, "nrisim/simorder")
			}
			var buf bytes.Buffer
			if err := format.Node(&buf, p.Fset, f); err != nil {
				die("format %s: %v", name, err)
			}
			src := buf.String()
			if needOrder {
				// range-over-func needs language version 1.23; the module says less. A file-level
				// go version constraint upgrades this file only.
				if i := strings.Index(src, "//go:build "); i >= 0 {
					j := i + strings.IndexByte(src[i:], '\n')
					expr := strings.TrimSpace(src[i+len("//go:build ") : j])
					src = src[:i] + "//go:build (" + expr + ") && go1.23" + src[j:]
				} else {
					src = "//go:build go1.23\n\n" + src
				}
			}
			rel, _ := filepath.Rel(*repo, name)
			for ei, e := range edits {
				if e.File != rel {
					continue
				}
				if !strings.Contains(src, e.Old) {
					die("mutant edit %d: old text not found in generated %s", ei, rel)
				}
				if e.All {
					src = strings.ReplaceAll(src, e.Old, e.New)
				} else {
					src = strings.Replace(src, e.Old, e.New, 1)
				}
				used[ei] = true
				changed = true
			}
			if !strings.HasSuffix(p.PkgPath, "/pkg/api") && !strings.HasSuffix(p.PkgPath, "/generate") {
				ys, ny, err := insertYields(src, rel)
				if err != nil {
					die("%v", err)
				}
				if ny > 0 {
					src, changed = ys, true
					nyields += ny
				}
				rs, nsel, err := rewriteSelects(src, rel)
				if err != nil {
					die("%v", err)
				}
				if nsel > 0 {
					src, changed = rs, true
					nselects += nsel
				}
			}
			if !changed {
				continue
			}
			dst := filepath.Join(ovDir, strings.ReplaceAll(rel, "/", "__"))
			if err := os.WriteFile(dst, []byte(src), 0o644); err != nil {
				die("%v", err)
			}
			overlay[name] = dst
		}
	}
	for ei, e := range edits {
		if !used[ei] && !strings.HasPrefix(e.File, "ttrpc/") {
			die("mutant edit %d: file %s is not part of the simulated packages", ei, e.File)
		}
	}

	// (3) export shim
	shim := filepath.Join(ovDir, "zz_verif_export.go")
	os.WriteFile(shim, []byte(`package adaptation

import "net"

// VerifServe serves plugin connections from the given listener (simulation only;
// this file exists only in the build overlay generated by /verif/simgen).
func (r *Adaptation) VerifServe(l net.Listener) error {
	return r.acceptPluginConnections(l)
}
`), 0o644)
	overlay[filepath.Join(*repo, "pkg/adaptation/zz_verif_export.go")] = shim

	b, _ := json.MarshalIndent(map[string]any{"Replace": overlay}, "", " ")
	if err := os.WriteFile(filepath.Join(*out, "overlay.json"), b, 0o644); err != nil {
		die("%v", err)
	}
	sort.Slice(sites, func(i, j int) bool { return sites[i].Pos < sites[j].Pos })
	sb, _ := json.MarshalIndent(map[string]any{"map_range_sites": sites, "sync_imports_redirected": nsync, "selects_rewritten": nselects}, "", " ")
	os.WriteFile(filepath.Join(*out, "simgen-report.json"), sb, 0o644)

	// (4) ttrpc scratch copy
	if *ttrpcSrc != "" {
		dst := filepath.Join(*out, "ttrpc")
		os.RemoveAll(dst)
		os.MkdirAll(dst, 0o755)
		ents, err := os.ReadDir(*ttrpcSrc)
		if err != nil {
			die("%v", err)
		}
		for _, e := range ents {
			n := e.Name()
			if e.IsDir() || strings.HasSuffix(n, "_test.go") || !(strings.HasSuffix(n, ".go") || n == "go.mod" || n == "go.sum") {
				continue
			}
			b, err := os.ReadFile(filepath.Join(*ttrpcSrc, n))
			if err != nil {
				die("%v", err)
			}
			s := string(b)
			if n == "go.mod" {
				s = strings.Replace(s, "\ngo 1.19\n", "\ngo 1.23\n", 1)
			}
			if strings.HasSuffix(n, ".go") {
				s = strings.Replace(s, "\t\"sync\"\n", "\tsync \"nrisim/simsync\"\n", 1)
				if n == "client.go" {
					old := "\tfor sid, s := range c.streams {\n"
					if !strings.Contains(s, old) {
						die("ttrpc client.go: cleanupStreams range not found")
					}
					s = strings.Replace(s, old, "\tfor sid, s := range simorder.Seq2(\"ttrpc/client.go:cleanupStreams\", c.streams) {\n", 1)
					s = strings.Replace(s, "\tsync \"nrisim/simsync\"\n", "\t\"nrisim/simorder\"\n\tsync \"nrisim/simsync\"\n", 1)
				}
				if n == "channel.go" {
					old := "\tmessageLengthMax    = 4 << 20\n"
					if !strings.Contains(s, old) {
						die("ttrpc channel.go: messageLengthMax not found")
					}
					s = strings.Replace(s, old, "", 1)
					s += "\n// messageLengthMax is a variable in the simulation copy only (default = shipped value).\nvar messageLengthMax = 4 << 20\n\n// VerifSetMessageLengthMax changes the limit (simulation only) and returns the old value.\nfunc VerifSetMessageLengthMax(n int) int { o := messageLengthMax; messageLengthMax = n; return o }\n"
				}
				for ei, e := range edits {
					if e.File == "ttrpc/"+n {
						if !strings.Contains(s, e.Old) {
							die("mutant edit %d: old text not found in ttrpc/%s", ei, n)
						}
						s = strings.Replace(s, e.Old, e.New, 1)
					}
				}
			}
			if strings.HasSuffix(n, ".go") && !strings.HasSuffix(n, ".pb.go") {
				ys, ny, err := insertYields(s, "ttrpc/"+n)
				if err != nil {
					die("%v", err)
				}
				if ny > 0 {
					s = ys
					nyields += ny
				}
				rs, nsel, err := rewriteSelects(s, "ttrpc/"+n)
				if err != nil {
					die("%v", err)
				}
				if nsel > 0 {
					s = rs
					nselects += nsel
				}
				if n == "services.go" {
					// one more scheduling point: a handler has returned its reply object, the reply is not yet
					// marshalled (same goroutine, no synchronisation operation in between in the shipped code)
					old := "\tresp, err := s.unaryInterceptor(ctx, unmarshal, info, method)\n"
					if !strings.Contains(s, old) {
						die("ttrpc services.go: unaryCall handler invocation not found")
					}
					s = strings.Replace(s, old, old+"\tsimorder.Yield(\"ttrpc/services.go:handler-returned\")\n", 1)
					if !strings.Contains(s, "\"nrisim/simorder\"") {
						s = strings.Replace(s, "\nimport (", "\nimport (\n\t\"nrisim/simorder\"", 1)
					}
					nyields++
				}
			}
			if err := os.WriteFile(filepath.Join(dst, n), []byte(s), 0o644); err != nil {
				die("%v", err)
			}
		}
	}
	sb2, _ := json.MarshalIndent(map[string]any{"map_range_sites": sites, "sync_imports_redirected": nsync, "selects_rewritten": nselects, "yields_after_receives": nyields, "functions": funcs}, "", " ")
	os.WriteFile(filepath.Join(*out, "simgen-report.json"), sb2, 0o644)
	fmt.Printf("simgen: %d files in overlay, %d map-range sites, %d sync imports redirected, %d selects rewritten, %d yields after receives\n", len(overlay), len(sites), nsync, nselects, nyields)
}

func addImport(f *ast.File, path string) {
	for _, im := range f.Imports {
		if im.Path.Value == fmt.Sprintf("%q", path) {
			return
		}
	}
	spec := &ast.ImportSpec{Path: &ast.BasicLit{Kind: token.STRING, Value: fmt.Sprintf("%q", path)}}
	for _, d := range f.Decls {
		if gd, ok := d.(*ast.GenDecl); ok && gd.Tok == token.IMPORT {
			gd.Specs = append(gd.Specs, spec)
			if !gd.Lparen.IsValid() {
				gd.Lparen = gd.Pos()
				gd.Rparen = gd.End()
			}
			f.Imports = append(f.Imports, spec)
			return
		}
	}
	gd := &ast.GenDecl{Tok: token.IMPORT, Specs: []ast.Spec{spec}}
	f.Decls = append([]ast.Decl{gd}, f.Decls...)
	f.Imports = append(f.Imports, spec)
}
