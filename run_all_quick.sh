#!/bin/bash
# runs every claimed check's quick command in turn (evidence files are rewritten)
cd /verif
for id in $(python3 -c "import json;print(' '.join(c['property_id'] for c in json.load(open('MANIFEST.json'))['checks']))"); do
  ./check $id --tier quick > .build/quick-$id.log 2>&1; echo "$id exit $? $(grep -c VIOLATION .build/quick-$id.log) $(tail -1 .build/quick-$id.log | cut -c1-120)"
done
