#!/bin/bash
# Build the framework from files on disk only (offline).
set -e
cd /verif
. ./env.sh
mkdir -p .build/tmp .build/gocache evidence replays
(cd simgen && $GO build -o /verif/.build/simgen .)
# warm the build cache: generate the overlay from the current tree and build the simulation binary
python3 - <<'PY'
import importlib.machinery, importlib.util, sys
loader = importlib.machinery.SourceFileLoader("check", "/verif/check")
spec = importlib.util.spec_from_loader("check", loader)
m = importlib.util.module_from_spec(spec); loader.exec_module(m)
m.build("main")
PY
echo setup ok
