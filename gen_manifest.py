#!/usr/bin/env python3
"""Regenerates MANIFEST.json from checks.json (claimed checks) and the fixed list of properties."""
import json
ROOT="/verif"
checks=json.load(open(ROOT+"/checks.json"))
props=[json.loads(l) for l in open(ROOT+"/properties.jsonl")]
NA={
 "C12":"pure function of the message value: no schedule, clock, fault or second party for a simulator to own; generating messages would be input generation in simulator vocabulary (DESIGN.md 6)",
 "C14":"pure conversion/copy functions; aliasing is observable sequentially; nothing nondeterministic to simulate (DESIGN.md 6)",
 "C18":"subject is OS process creation, environment, descriptor inheritance and reaping: exec/socketpair/kill have no seam; observing real child processes would be runtime monitoring (DESIGN.md 6)",
 "C20":"pure function of pod annotations inside package-main plugin binaries whose end-to-end path needs C18's process machinery (DESIGN.md 6)",
}
TEXT=json.load(open(ROOT+"/manifest_text.json"))
out={"version":1,"setup_cmd":"./setup.sh",
 "hooks":{"guard":"verif-overlay",
  "enable":"no source hooks are committed to /repo: /verif/simgen regenerates a go build overlay (go test -overlay /verif/.build/main/overlay.json: sync->nrisim/simsync, map ranges->nrisim/simorder, multi-case selects->seeded poll phase + original select, a scheduler yield after every channel receive, in every non-empty default clause of a select and between a ttRPC handler's return and the marshalling of its reply, a function-entry reach counter, one added file exporting the accept loop) plus a scratch copy of ttrpc from the current working tree on every check; without the overlay /repo builds exactly as shipped",
  "baseline_off_cmd":"for m in $(cat /w/out/gomods.txt); do MF=$(cd /repo/$m && . /w/out/goenv.sh && gomodflag); (cd /repo/$m && go test $MF -json -vet=off -count=1 -timeout 25m ./...); done",
  "source_commits":[],"add_only":True},
 "engines":[{"name":"nrisim","path":"/verif/nrisim","serves_properties":sorted(checks.keys()),
   "kind_free_text":"deterministic simulation with fault injection: one seeded scheduler on the root of a testing/synctest bubble decides every lock grant, message delivery (with chunking), fault (cut/kill/reset/close/hang/error/garbage), timer quantum, map iteration order and select-among-ready-cases outcome; real NRI adaptation, stub, mux and ttRPC code run unmodified apart from the import redirect; replay by recorded event keys; bespoke minimisation"}],
 "checks":[],"not_applicable":[],
 "notes":"All checks: ./check <ID> [--tier quick|thorough] [--seed N]; --replay FILE re-executes a recorded run; --selftest runs the determinism self-test; --mutant FILE applies a sensitivity edit to the generated copies. Exit 0 held / 1 VIOLATION / 2 build-watchdog-divergence trouble. KNOWN_FINDINGS.json lists genuine defects that are reported as KNOWN-FINDING lines."}
for p in props:
    i=p["id"]
    if i in checks:
        c=checks[i]; t=TEXT.get(i,{})
        out["checks"].append({"property_id":i,"quick_cmd":f"./check {i} --tier quick","thorough_cmd":f"./check {i} --tier thorough",
          "evidence_file":f"/verif/evidence/{i}.json","replay_cmd_template":f"./check {i} --replay {{path}}","engine":"nrisim",
          "level_claimed":{"category":c["level"],"text":t.get("text","seeded search over schedules and faults of the simulated system; oracle over the recorded history"),"design_ref":f"DESIGN.md section 5, {i}"},
          "level_note":t.get("note","sampling, not proof; fidelity of the simulated locks, transport and clock is assumed (DESIGN.md 9)"),
          "technique":t.get("technique","deterministic simulation, seeded schedule and fault search")})
    elif i in NA:
        out["not_applicable"].append({"property_id":i,"reason":NA[i]})
    else:
        out["not_applicable"].append({"property_id":i,"reason":"check not built yet in this round (planned, see DESIGN.md section 5); not claimed until it exists"})
json.dump(out,open(ROOT+"/MANIFEST.json","w"),indent=1)
print("claimed:",[c["property_id"] for c in out["checks"]])
