// mutgen enumerates small syntactic mutations of Go source files and prints them as JSON lines
// {file, func, line, op, off, len, new, old}: replace len bytes at byte offset off by new.
// It is the generator of the automated mutation sweep (mutsweep.py); the hand-written catalogue
// in /verif/mutants and the sub-agents' seeded changes are separate.
package main

import (
	"encoding/json"
	"flag"
	"fmt"
	"go/ast"
	"go/parser"
	"go/token"
	"os"
	"path/filepath"
	"sort"
	"strings"
)

type Mut struct {
	File string `json:"file"`
	Func string `json:"func"`
	Line int    `json:"line"`
	Op   string `json:"op"`
	Off  int    `json:"off"`
	Len  int    `json:"len"`
	New  string `json:"new"`
	Old  string `json:"old"`
}

var swap = map[token.Token]string{
	token.EQL: "!=", token.NEQ: "==", token.LSS: "<=", token.LEQ: "<", token.GTR: ">=", token.GEQ: ">",
	token.LAND: "||", token.LOR: "&&",
}

func isLogCall(e ast.Expr) bool {
	c, ok := e.(*ast.CallExpr)
	if !ok {
		return false
	}
	s, ok := c.Fun.(*ast.SelectorExpr)
	if !ok {
		return false
	}
	if id, ok := s.X.(*ast.Ident); ok && (id.Name == "log" || id.Name == "logger" || id.Name == "fmt") {
		return true
	}
	n := s.Sel.Name
	return strings.HasPrefix(n, "Debugf") || strings.HasPrefix(n, "Infof") || strings.HasPrefix(n, "Warnf") || strings.HasPrefix(n, "Errorf")
}

func isLockCall(e ast.Expr) bool {
	c, ok := e.(*ast.CallExpr)
	if !ok {
		return false
	}
	s, ok := c.Fun.(*ast.SelectorExpr)
	if !ok {
		return false
	}
	switch s.Sel.Name {
	case "Lock", "Unlock", "RLock", "RUnlock":
		return true
	}
	return false
}

func main() {
	root := flag.String("root", "/repo", "repository root")
	skipFuncs := flag.String("skip", "", "comma separated function names to skip")
	flag.Parse()
	skip := map[string]bool{}
	for _, f := range strings.Split(*skipFuncs, ",") {
		skip[f] = true
	}
	enc := json.NewEncoder(os.Stdout)
	for _, rel := range flag.Args() {
		path := filepath.Join(*root, rel)
		src, err := os.ReadFile(path)
		if err != nil {
			fmt.Fprintln(os.Stderr, err)
			os.Exit(2)
		}
		fset := token.NewFileSet()
		f, err := parser.ParseFile(fset, path, src, 0)
		if err != nil {
			fmt.Fprintln(os.Stderr, err)
			os.Exit(2)
		}
		off := func(p token.Pos) int { return fset.Position(p).Offset }
		// copy-paste slips: x.Foo where x.Bar was meant. Siblings = selector names used on the same
		// base expression text somewhere in the file (a swap to another type does not compile and is dropped).
		sib := map[string][]string{}
		ast.Inspect(f, func(n ast.Node) bool {
			if se, ok := n.(*ast.SelectorExpr); ok {
				base := string(src[off(se.X.Pos()):off(se.X.End())])
				if len(base) <= 40 {
					found := false
					for _, x := range sib[base] {
						if x == se.Sel.Name {
							found = true
						}
					}
					if !found {
						sib[base] = append(sib[base], se.Sel.Name)
					}
				}
			}
			return true
		})
		for k := range sib {
			sort.Strings(sib[k])
		}
		for _, d := range f.Decls {
			fd, ok := d.(*ast.FuncDecl)
			if !ok || fd.Body == nil || skip[fd.Name.Name] {
				continue
			}
			fname := fd.Name.Name
			emit := func(op string, from, to token.Pos, repl string) {
				a, b := off(from), off(to)
				enc.Encode(Mut{File: rel, Func: fname, Line: fset.Position(from).Line, Op: op, Off: a, Len: b - a, New: repl, Old: string(src[a:b])})
			}
			var loopDepth []bool // true: innermost breakable construct is a for loop
			var walk func(n ast.Node)
			stmtList := func(list []ast.Stmt) {
				for _, s := range list {
					switch st := s.(type) {
					case *ast.ExprStmt:
						if !isLogCall(st.X) && !isLockCall(st.X) {
							emit("delete-call", st.Pos(), st.End(), "")
						}
					case *ast.AssignStmt:
						if st.Tok != token.DEFINE {
							// keep the statement syntactically harmless: assign to blank
							emit("delete-assign", st.Pos(), st.End(), "")
						}
					case *ast.IncDecStmt:
						emit("delete-incdec", st.Pos(), st.End(), "")
					}
					walk(s)
				}
			}
			walk = func(n ast.Node) {
				switch x := n.(type) {
				case nil:
					return
				case *ast.BlockStmt:
					stmtList(x.List)
					return
				case *ast.CaseClause:
					for _, e := range x.List {
						walk(e)
					}
					stmtList(x.Body)
					return
				case *ast.CommClause:
					walk(x.Comm)
					stmtList(x.Body)
					return
				case *ast.IfStmt:
					walk(x.Init)
					emit("negate-if", x.Cond.Pos(), x.Cond.End(), "!("+string(src[off(x.Cond.Pos()):off(x.Cond.End())])+")")
					walk(x.Cond)
					walk(x.Body)
					walk(x.Else)
					return
				case *ast.ForStmt:
					walk(x.Init)
					walk(x.Cond)
					walk(x.Post)
					loopDepth = append(loopDepth, true)
					walk(x.Body)
					loopDepth = loopDepth[:len(loopDepth)-1]
					return
				case *ast.RangeStmt:
					walk(x.X)
					loopDepth = append(loopDepth, true)
					walk(x.Body)
					loopDepth = loopDepth[:len(loopDepth)-1]
					return
				case *ast.SwitchStmt:
					walk(x.Init)
					walk(x.Tag)
					loopDepth = append(loopDepth, false)
					walk(x.Body)
					loopDepth = loopDepth[:len(loopDepth)-1]
					return
				case *ast.TypeSwitchStmt:
					loopDepth = append(loopDepth, false)
					walk(x.Body)
					loopDepth = loopDepth[:len(loopDepth)-1]
					return
				case *ast.SelectStmt:
					loopDepth = append(loopDepth, false)
					walk(x.Body)
					loopDepth = loopDepth[:len(loopDepth)-1]
					return
				case *ast.BranchStmt:
					if x.Label == nil && len(loopDepth) > 0 && loopDepth[len(loopDepth)-1] {
						if x.Tok == token.CONTINUE {
							emit("continue-to-break", x.Pos(), x.End(), "break")
						} else if x.Tok == token.BREAK {
							emit("break-to-continue", x.Pos(), x.End(), "continue")
						}
					}
					return
				case *ast.BinaryExpr:
					if r, ok := swap[x.Op]; ok {
						emit("binop "+x.Op.String()+"->"+r, x.OpPos, x.OpPos+token.Pos(len(x.Op.String())), r)
					}
					walk(x.X)
					walk(x.Y)
					return
				case *ast.UnaryExpr:
					if x.Op == token.NOT {
						emit("drop-not", x.OpPos, x.OpPos+1, "")
					}
					walk(x.X)
					return
				case *ast.BasicLit:
					if x.Kind == token.INT && len(x.Value) < 6 && !strings.HasPrefix(x.Value, "0x") && !strings.HasPrefix(x.Value, "0b") {
						var v int
						if _, err := fmt.Sscanf(x.Value, "%d", &v); err == nil && fmt.Sprint(v) == x.Value {
							emit("int+1", x.Pos(), x.End(), fmt.Sprint(v+1))
						}
					}
					return
				case *ast.SelectorExpr:
					base := string(src[off(x.X.Pos()):off(x.X.End())])
					if ss := sib[base]; len(ss) >= 2 {
						// the most similar sibling name (common prefix + suffix) is the likeliest slip and the
						// likeliest to have the same type
						best, score := "", -1
						for _, name := range ss {
							if name == x.Sel.Name {
								continue
							}
							a, b := x.Sel.Name, name
							p := 0
							for p < len(a) && p < len(b) && a[p] == b[p] {
								p++
							}
							q := 0
							for q < len(a)-p && q < len(b)-p && a[len(a)-1-q] == b[len(b)-1-q] {
								q++
							}
							if p+q > score {
								best, score = name, p+q
							}
						}
						if best != "" {
							emit("sibling-field", x.Sel.Pos(), x.Sel.End(), best)
						}
					}
					walk(x.X)
					return
				case *ast.FuncLit:
					saved := loopDepth
					loopDepth = nil
					walk(x.Body)
					loopDepth = saved
					return
				}
				// generic descent for everything else
				ast.Inspect(n, func(c ast.Node) bool {
					if c == n || c == nil {
						return true
					}
					switch c.(type) {
					case *ast.BlockStmt, *ast.IfStmt, *ast.ForStmt, *ast.RangeStmt, *ast.SwitchStmt, *ast.TypeSwitchStmt, *ast.SelectStmt,
						*ast.BranchStmt, *ast.BinaryExpr, *ast.UnaryExpr, *ast.BasicLit, *ast.FuncLit, *ast.CaseClause, *ast.CommClause, *ast.SelectorExpr:
						walk(c)
						return false
					}
					return true
				})
			}
			walk(fd.Body)
		}
	}
}
