module mutgen

go 1.22
