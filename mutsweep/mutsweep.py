#!/usr/bin/env python3
"""Automated mutation sweep: samples small syntactic mutations (mutgen) of the NRI sources the claimed
properties are anchored in, keeps those that still compile AND pass the existing test suite, and runs the
checks that cover the file against each of them (quick tier, reduced budget). Results are appended to
mutsweep/results.jsonl; survivors are to be triaged by hand (equivalent mutant / outside every claimed
property / gap in a check) - see DESIGN.md section 12.

Every mutant lives in a scratch git worktree of /repo under /tmp (one per lane, reused, removed at the end);
/repo itself is never touched. The checks are pointed at the worktree with VERIF_REPO.

usage: mutsweep.py --seed S --per-file N [--lanes 3] [--budget 12] [--only result.go,...]
"""
import argparse, json, os, random, subprocess, sys, threading, time

ROOT = os.path.dirname(os.path.dirname(os.path.abspath(__file__)))
REPO = "/repo"
ENV = dict(os.environ, GOFLAGS="-mod=mod", GOPROXY="off", GOSUMDB="off")

# file -> checks that cover it, most likely detector first
FILES = {
    "pkg/adaptation/result.go": ["C01", "C02", "C05", "C04", "C03"],
    "pkg/adaptation/adaptation.go": ["C06", "C08", "C07", "C17", "C19", "C09"],
    "pkg/adaptation/plugin.go": ["C07", "C09", "C17", "C06", "C08", "C19"],
    "pkg/net/multiplex/mux.go": ["C10", "C11", "C16"],
    "pkg/net/multiplex/ttrpc.go": ["C10", "C16"],
    "pkg/stub/stub.go": ["C16", "C15", "C19", "C09", "C07"],
    "pkg/runtime-tools/generate/generate.go": ["C13", "C03"],
    "pkg/api/adjustment.go": ["C13", "C03", "C02"],
    "pkg/api/update.go": ["C05", "C19"],
    "pkg/api/helpers.go": ["C02", "C13", "C04", "C03"],
    "pkg/api/event.go": ["C15", "C06", "C17"],
    "pkg/api/resources.go": ["C13", "C03", "C04"],
    "pkg/api/hooks.go": ["C03", "C13"],
    "pkg/api/mount.go": ["C13", "C03"],
    "pkg/api/device.go": ["C13", "C03"],
    "pkg/api/env.go": ["C13", "C04", "C03", "C02"],
    "pkg/api/plugin.go": ["C17", "C06"],
    "pkg/api/optional.go": ["C13", "C03", "C01"],
}
# functions outside every claimed property (process launching, wasm, discovery, validation plugins, logging)
SKIP = ("newLaunchedPlugin,startPreInstalledPlugins,discoverPlugins,getPluginConfig,isWasm,Log,newWasmPlugin,"
        "startListener,String,qualifiedName,DisablePluginLaunch,WithPluginPath,WithPluginConfigPath,WithSocketPath,"
        "Pretty,dump,Dump,EnvKeyValue,FromOCILinuxNamespaces,FromOCIHooks,FromOCIMounts,FromOCILinuxDevices,FromOCILinuxResources,"
        "validateContainerAdjustment,WithDefaultValidator,getHostFunctions,WithTTRPCOptions,"
        # added after the first batch (see triage.py): helpers no claimed property covers
        "PrettyString,ParseEventMask,FromOCIEnv,Cmp,Hooks,WithResourceChecker,WithLabelFilter,WithAnnotationFilter,SpecGenerator,"
        "DupStringSlice,DupStringMap,AccessString,startPlugins,ParsePluginName,initConfigLinux,initConfigHooks,initRlimits,splitEnvVar")

lock = threading.Lock()


def sh(cmd, cwd=None, timeout=600, env=None):
    try:
        r = subprocess.run(cmd, cwd=cwd, env=env or ENV, stdout=subprocess.PIPE, stderr=subprocess.STDOUT, text=True, timeout=timeout)
        return r.returncode, r.stdout
    except subprocess.TimeoutExpired as e:
        return -9, (e.stdout or b"").decode(errors="replace") if isinstance(e.stdout, bytes) else (e.stdout or "")


def lane(k, queue, args, out):
    wt = f"/tmp/ms/lane{k}"
    sh(["git", "-C", REPO, "worktree", "remove", "--force", wt])
    rc, o = sh(["git", "-C", REPO, "worktree", "add", "--detach", wt, "HEAD"])
    if rc != 0:
        print("worktree:", o); return
    try:
        while True:
            with lock:
                if not queue:
                    break
                m = queue.pop()
            path = f"{wt}/{m['file']}"
            src = open(path, "rb").read()
            assert src[m["off"]:m["off"] + m["len"]].decode() == m["old"], "source changed under the sweep"
            open(path, "wb").write(src[:m["off"]] + m["new"].encode() + src[m["off"] + m["len"]:])
            rec = dict(m); rec.pop("off"); rec.pop("len")
            t0 = time.time()
            try:
                rc, o = sh(["go", "build", "./pkg/..."], cwd=wt, timeout=300)
                if rc != 0:
                    rec["outcome"] = "does-not-compile"
                else:
                    rc, o = sh(["go", "test", "-vet=off", "-count=1", "./pkg/..."], cwd=wt, timeout=240)
                    if rc != 0:
                        rec["outcome"] = "killed-by-existing-tests" + (" (timeout)" if rc == -9 else "")
                    else:
                        rec["outcome"] = "survived"
                        rec["checks"] = {}
                        for cid in FILES[m["file"]]:
                            env = dict(ENV, VERIF_REPO=wt)
                            rc, o = sh([ROOT + "/check", cid, "--tag", f"ms-lane{k}", "--budget", str(args.budget), "--no-evidence", "--no-minimise", "--workers", str(args.workers)],
                                       env=env, timeout=900)
                            first = [l for l in o.splitlines() if l.startswith("  C") or l.startswith("ERROR")][:1]
                            rec["checks"][cid] = {"exit": rc, "first": first[0][:300] if first else ""}
                            if rc == 1:
                                rec["outcome"] = "detected"
                                rec["by"] = cid
                                break
                            if rc not in (0, 1):
                                rec["outcome"] = "check-error"
                                break
            finally:
                open(path, "wb").write(src)
            rec["wall_s"] = round(time.time() - t0, 1)
            with lock:
                out.write(json.dumps(rec) + "\n"); out.flush()
                print(f"[lane{k}] {m['file']}:{m['line']} {m['func']} {m['op']}: {rec['outcome']} {rec.get('by','')}", flush=True)
    finally:
        sh(["git", "-C", REPO, "worktree", "remove", "--force", wt])
        sh(["rm", "-rf", f"{ROOT}/.build/ms-lane{k}"])


def main():
    ap = argparse.ArgumentParser()
    ap.add_argument("--seed", type=int, default=1)
    ap.add_argument("--per-file", type=int, default=20)
    ap.add_argument("--lanes", type=int, default=3)
    ap.add_argument("--budget", type=int, default=12)
    ap.add_argument("--workers", type=int, default=5)
    ap.add_argument("--only", default="")
    ap.add_argument("--ops", default="", help="comma separated operator prefixes to keep (e.g. sibling-field,delete-call)")
    ap.add_argument("--out", default=ROOT + "/mutsweep/results.jsonl")
    args = ap.parse_args()
    files = [f for f in FILES if not args.only or any(f.endswith(o) for o in args.only.split(","))]
    files = [f for f in files if os.path.exists(f"{REPO}/{f}")]
    rc, o = sh([ROOT + "/.build/mutgen", "-root", REPO, "-skip", SKIP] + files)
    if rc != 0:
        print(o); sys.exit(2)
    muts = [json.loads(l) for l in o.splitlines() if l.startswith("{")]
    if args.ops:
        muts = [m for m in muts if any(m["op"].startswith(p) for p in args.ops.split(","))]
    done = set()
    if os.path.exists(args.out):
        for l in open(args.out):
            d = json.loads(l); done.add((d["file"], d["line"], d["op"], d["old"]))
    rng = random.Random(args.seed)
    queue = []
    for f in files:
        fm = [m for m in muts if m["file"] == f and (m["file"], m["line"], m["op"], m["old"]) not in done]
        # a scaled share for the big files
        n = args.per_file * (3 if f.endswith("result.go") else 2 if f.endswith(("plugin.go", "stub.go", "mux.go", "generate.go", "adaptation.go")) and "/api/" not in f else 1)
        rng.shuffle(fm)
        queue += fm[:n]
    rng.shuffle(queue)
    print(f"{len(muts)} mutation sites in {len(files)} files; {len(queue)} sampled (seed {args.seed})", flush=True)
    os.makedirs("/tmp/ms", exist_ok=True)
    out = open(args.out, "a")
    ths = [threading.Thread(target=lane, args=(k, queue, args, out)) for k in range(args.lanes)]
    for t in ths: t.start()
    for t in ths: t.join()
    sh(["git", "-C", REPO, "worktree", "prune"])


if __name__ == "__main__":
    main()
