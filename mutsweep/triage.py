#!/usr/bin/env python3
"""Summarises mutsweep/results.jsonl and classifies every survivor (a mutant that compiles, passes the
existing suite and was not detected by the checks run against it). A survivor with no classification is
printed as UNTRIAGED - those are the ones to look at."""
import json, collections, sys
ROOT = __file__.rsplit('/', 2)[0]
rs = [json.loads(l) for l in open(ROOT + '/mutsweep/results.jsonl')]

# functions no claimed property covers (formatting, parsing of names and strings, OCI->NRI conversion used by
# runtimes, comparison helpers without callers, generator options the properties do not mention, launching
# pre-installed plugins, constructors' pointer-argument branches)
OUT_OF_SCOPE = {
 'PrettyString': 'formatting only', 'ParseEventMask': 'parses subscription strings; C15 is stated over masks',
 'FromOCIEnv': 'OCI to NRI conversion on the runtime side, no claimed property', 'Cmp': 'comparison helper without callers in pkg/',
 'Hooks': 'helper without callers in pkg/', 'WithResourceChecker': 'generator option no property mentions',
 'WithLabelFilter': 'generator option no property mentions', 'WithAnnotationFilter': 'generator option no property mentions',
 'SpecGenerator': 'defaults of options no property mentions', 'DupStringSlice': 'nil / copy branches not observable through the adjusted spec',
 'DupStringMap': 'nil branch', 'Int32': 'pointer-argument constructor branch', 'UInt64': 'pointer-argument constructor branch',
 'UInt32': 'pointer-argument constructor branch', 'Int64': 'pointer-argument constructor branch', 'FileMode': 'pointer-argument constructor branch',
 'AccessString': 'the access string does not depend on the file mode in the shipped code either (r and w are constant)',
 'startPlugins': 'pre-installed (launched) plugins: C18 territory, not applicable here', 'ParsePluginName': 'file names of launched plugins',
 'initConfigLinux': 'Config is never nil in the generator under test', 'initConfigHooks': 'Config is never nil in the generator under test',
 'initRlimits': 'append to nil is the same', 'stop': 'process handling of launched plugins (an external plugin is only closed, which close() already did)',
 'stopPlugins': 'Adaptation.Stop is outside every claimed property', 'stopListener': 'Adaptation.Stop is outside every claimed property', 'splitEnvVar': 'strings.SplitN never returns an empty slice: dead branch',
}
# individually argued equivalent mutants: (file suffix, line, op prefix) -> why
EQUIVALENT = {
 ('stub.go', 366, 'delete-assign'): 'rpcm is overwritten by the next Start before any use',
 ('mux.go', 247, 'binop'): 'size == max is clamped to max either way',
 ('mux.go', 251, 'int+1'): 'PutUint32 writes 4 bytes whatever the slice length',
 ('mux.go', 271, 'int+1'): 'byte count returned together with an error; callers look at the error',
 ('mux.go', 393, 'int+1'): 'byte count returned together with an error',
 ('mux.go', 414, 'int+1'): 'byte count returned together with an error',
 ('mux.go', 390, 'binop'): 'doneC is only ever closed, never sent to: ok is always false',
 ('mux.go', 215, 'delete-call'): 'the reader also leaves on the trunk read error that the following trunk.Close() causes',
 ('mux.go', 340, 'delete-call'): 'without the recorded error readers get the default end-of-file error: still an error, promptly (C11 fixes the kind only for an orderly close)',
 ('mux.go', 258, 'delete-call'): 'as above, for a failed header write',
 ('plugin.go', 497, 'binop'): 'only differs for a plugin that mishandles split synchronization (replies with updates or a wrong More flag before the last message); the stub never does, and C09 is stated for the stub protocol',
 ('plugin.go', 554, 'binop'): 'defensive test of impossible lengths in an OversizedMessageErr',
 ('plugin.go', 554, 'int+1'): 'defensive test of impossible lengths in an OversizedMessageErr',
 ('plugin.go', 375, 'delete-call'): 'launched plugins only',
 ('plugin.go', 237, 'delete-call'): 'error path of connecting a launched or pre-connected plugin whose trunk already failed',
 ('adaptation.go', 201, 'delete-call'): 'Adaptation.Stop is outside every claimed property (C17 speaks of disabled connections, not of Stop)',
 ('adaptation.go', 187, 'negate-if'): 'only differs when the listener cannot be created (OS error)',
 ('adaptation.go', 451, 'negate-if'): 'closed plugins are already closed; stop() of an external plugin does nothing more',
 ('adaptation.go', 451, 'int+1'): 'closed plugins are already closed; stop() of an external plugin does nothing more',
 ('adaptation.go', 451, 'binop'): 'closed plugins are already closed; stop() of an external plugin does nothing more',
 ('adaptation.go', 589, 'binop'): 'order of equal indices is unspecified',
 ('stub.go', 418, 'int+1'): 'channel capacity 2 instead of 1',
 ('stub.go', 510, 'binop'): "Run's return value is not part of C16",
 ('stub.go', 481, 'delete-call'): 'closing the mux below closes the listener connection too',
 ('stub.go', 486, 'negate-if'): 'closing the mux below closes the client connection too; the close notification still fires once (C16 checks it)',
 ('generate.go', 170, 'delete-call'): 'the upstream generator replaces an existing variable in place, a second AddProcessEnv of the same pair changes nothing (duplicates would be flagged by C13)',
 ('generate.go', 293, 'negate-if'): 'resource checker option is never set',
 ('generate.go', 91, 'delete-assign'): 'resource checker option is never set',
 ('mount.go', 53, 'binop'): 'mount propagation query: options that need the host mount table (rshared/rslave/rprivate) are excluded by design (DESIGN section 5, C03)',
 ('mount.go', 54, 'delete-assign'): 'mount propagation query: excluded by design',
 ('generate.go', 445, 'binop'): 'rootfs propagation for rslave mounts: excluded by design',
 ('generate.go', 446, 'binop'): 'rootfs propagation for rslave mounts: excluded by design',
 # batch 2
 ('mux.go', 267, 'binop'): 'a failed trunk write means a dead trunk in the fault model (and in practice): the reader fails and closes the mux whether or not the writer does',
 ('mux.go', 267, 'negate-if'): 'as above',
 ('mux.go', 259, 'delete-call'): 'as above',
 ('mux.go', 268, 'delete-call'): 'as for line 258: the error kind after a failure is not fixed by C11',
 ('mux.go', 256, 'delete-assign'): 'error text only',
 ('mux.go', 257, 'int+1'): 'byte count returned together with an error',
 ('mux.go', 396, 'int+1'): 'byte count returned together with an error',
 ('mux.go', 399, 'int+1'): 'byte count returned together with an error',
 ('mux.go', 334, 'delete-assign'): 'a net.Conn read never returns ttrpc.ErrServerClosed: dead case',
 ('adaptation.go', 487, 'delete-call'): 'Adaptation.Stop is outside every claimed property',
 ('adaptation.go', 591, 'negate-if'): 'guards logging only',
 ('adaptation.go', 139, 'negate-if'): 'wasm runtime set-up: launched plugins, not applicable',
 ('stub.go', 828, 'binop'): 'plugin identity derived from the binary name; every harness passes name and index explicitly',
 ('stub.go', 833, 'int+1'): 'as above', ('stub.go', 838, 'binop'): 'as above',
 ('stub.go', 412, 'delete-call'): 'the deferred mux Close below closes the client connection too',
 ('stub.go', 413, 'delete-assign'): 'rpcc is overwritten by the next Start before any use',
 ('plugin.go', 250, 'delete-call'): 'without the close signal a plugin that disconnects before registering is given up after the registration timeout instead of at once: still within the bound C17 states',
 ('plugin.go', 413, 'delete-assign'): 'the base name only appears in log and error texts (claims are keyed by the full name, indices stay distinct)',
 ('plugin.go', 304, 'negate-if'): 'guards logging only',
 ('plugin.go', 339, 'delete-assign'): 'the catalogue mutant c07-no-prune: a closed plugin that stays listed is skipped by every relay (documented equivalent)',
 ('generate.go', 488, 'binop'): 'comparator on distinct destinations',
 ('generate.go', 136, 'binop'): 'last statement of Adjust and AdjustRlimits never fails: returns nil either way',
 ('generate.go', 293, 'binop'): 'resource checker option is never set',
 ('generate.go', 446, 'negate-if'): 'rootfs propagation for rslave mounts: excluded by design',
 ('generate.go', 382, 'binop'): 'differs only by calling the injector with an empty list',
 ('generate.go', 167, 'continue-to-break'): 'differs only for an original environment entry without "=": not a valid OCI process environment',
 ('result.go', 591, 'binop'): 'appending an empty hook list changes nothing', ('result.go', 595, 'binop'): 'appending an empty hook list changes nothing',
 # batch 2, second part
 ('adaptation.go', 202, 'delete-call'): 'Adaptation.Stop is outside every claimed property',
 ('adaptation.go', 492, 'delete-assign'): 'only Stop uses the recorded listener',
 ('adaptation.go', 506, 'continue-to-break'): 'only differs when wrapping an accepted connection into a plugin fails, which needs an OS error',
 ('adaptation.go', 445, 'delete-assign'): 'closed plugins are already closed; stop() of an external plugin does nothing more',
 ('adaptation.go', 591, 'binop'): 'guards logging only',
 ('adaptation.go', 139, 'binop'): 'wasm runtime set-up: launched plugins, not applicable',
 ('mux.go', 310, 'delete-assign'): 'a net.Conn read never returns ttrpc.ErrClosed: dead case',
 ('mux.go', 332, 'delete-assign'): 'a net.Conn read never returns ttrpc.ErrClosed: dead case',
 ('mux.go', 199, 'int+1'): 'channel capacity 2 instead of 1',
 ('plugin.go', 282, 'delete-assign'): 'the peer pid only appears in log texts',
 ('plugin.go', 575, 'negate-if'): 'chunk-size heuristic: changes how many messages a split synchronization takes, and outcomes only in the few-large-objects regime where C09 accepts success and clean failure alike',
 ('plugin.go', 576, 'delete-assign'): 'chunk-size heuristic, as above', ('plugin.go', 559, 'negate-if'): 'chunk-size heuristic, as above',
 ('plugin.go', 535, 'int+1'): 'chunk-size heuristic, as above', ('plugin.go', 567, 'binop'): 'chunk-size heuristic, as above',
 ('plugin.go', 329, 'delete-call'): 'failure path of start: the caller closes the plugin as well',
 ('plugin.go', 251, 'delete-call'): 'a plugin whose connection dropped is closed by the next relay that fails on it (isFatalError); nothing reaches it either way',
 ('plugin.go', 514, 'delete-call'): 'the registration fails with the returned error and the caller closes the plugin',
 ('plugin.go', 351, 'delete-call'): 'closing the mux below closes the client connection too',
 ('stub.go', 708, 'delete-assign'): 'close() resets the collected request as well, and one session synchronizes once',
 ('stub.go', 426, 'delete-assign'): 'closing the mux closes the listener connection too',
 ('stub.go', 427, 'delete-assign'): 'the server stops when its listener fails after the mux is closed',
 ('stub.go', 484, 'delete-call'): 'the server stops when its listener fails after the mux is closed',
 ('stub.go', 389, 'delete-call'): 'failure path: the deferred mux Close stops the server too',
 ('stub.go', 216, 'delete-assign'): 'the plugin name is not part of any claimed property (C17 only needs it non-empty, which the binary name is)',
 ('stub.go', 832, 'negate-if'): 'plugin identity derived from the binary name; every harness passes name and index explicitly',
 ('generate.go', 170, 'int+1'): 'as the deletion on the same line: the upstream generator replaces an existing variable in place',
 ('generate.go', 136, 'negate-if'): 'last statement of Adjust and AdjustRlimits never fails: returns nil either way',
 # batch 3 (sibling-field: one name used where a similar one was meant)
 ('mux.go', 309, 'sibling-field'): 'a net.Conn read returns neither ttrpc error: dead case either way',
 ('generate.go', 558, 'sibling-field'): 'initConfig on a generator whose Config is never nil',
 ('generate.go', 553, 'sibling-field'): 'the spec under test always has a linux section, the two initialisers then do the same',
 ('adaptation.go', 346, 'sibling-field'): 'as c07-no-prune: a closed plugin that stays listed after a state change is skipped by the next relay; the plugin directory scanned instead does not exist',
 ('adaptation.go', 178, 'sibling-field'): 'log level only', ('plugin.go', 466, 'sibling-field'): 'log level only',
 ('plugin.go', 425, 'sibling-field'): 'log text only', ('stub.go', 635, 'sibling-field'): 'log text only',
 ('plugin.go', 304, 'sibling-field'): 'guards logging only',
 ('plugin.go', 364, 'sibling-field'): 'process handling of launched plugins',
 ('stub.go', 225, 'sibling-field'): 'only the text of the error for a repeated option',
 ('adaptation.go', 201, 'sibling-field'): 'Adaptation.Stop is outside every claimed property',
 ('adaptation.go', 202, 'sibling-field'): 'Adaptation.Stop is outside every claimed property',
 ('result.go', 1075, 'sibling-field'): 'the owners copy is taken of the target of an ignore-failure update; mount claims only exist for the container being created, which an update cannot target',
 ('stub.go', 379, 'sibling-field'): 'failure path of Start before the listener exists',
 ('plugin.go', 489, 'sibling-field'): 'log text only',
 ('update.go', 195, 'sibling-field'): 'adds an empty CPU section to an update that sets the pids limit: no field of it is set, nothing is claimed or applied',
 ('plugin.go', 243, 'sibling-field'): 'log text only', ('adaptation.go', 510, 'sibling-field'): 'log level only',
 ('adaptation.go', 518, 'sibling-field'): 'log level only', ('adaptation.go', 594, 'sibling-field'): 'log text only',
 ('plugin.go', 338, 'sibling-field'): 'a dropped plugin is marked closed and gets nothing more, but its connection stays open: C07 and C17 state what the dropped plugin receives, not that its connection is closed',
 ('generate.go', 535, 'sibling-field'): 'the spec under test always has a linux section, the two initialisers then do the same',
 ('resources.go', 131, 'sibling-field'): 'device cgroup rules inside LinuxResources: the generator does not apply them (it derives the rules from the device list)',
 ('adjustment.go', 336, 'sibling-field'): 'adds an empty CPU section to an adjustment that sets the pids limit: no field of it is set',
 ('result.go', 1098, 'sibling-field'): 'CDI device claims land in the table of device paths: still one owner per name, and a CDI name never equals a device path',
 ('adaptation.go', 249, 'sibling-field'): 'as c07-no-prune: a closed plugin that stays listed is skipped by the next relay and pruned by the next request',
 ('stub.go', 484, 'sibling-field'): 'the server stops when its listener fails after the mux is closed',
 # batch 4
 ('plugin.go', 352, 'delete-call'): 'closing the mux below ends the server too', ('plugin.go', 353, 'sibling-field'): 'closing the mux below closes every logical connection',
 ('plugin.go', 351, 'sibling-field'): 'closing the mux below closes every logical connection', ('plugin.go', 349, 'delete-assign'): 'as c07-no-prune',
 ('plugin.go', 328, 'delete-call'): 'failure path of start: the plugin object is dropped by the caller', ('plugin.go', 329, 'sibling-field'): 'failure path of start: the plugin object is dropped by the caller and never locked again',
 ('plugin.go', 283, 'binop'): 'the peer pid only appears in log texts', ('plugin.go', 263, 'sibling-field'): 'log text only', ('plugin.go', 619, 'sibling-field'): 'log text only',
 ('plugin.go', 305, 'sibling-field'): 'log level only', ('plugin.go', 488, 'sibling-field'): 'log level only', ('plugin.go', 526, 'sibling-field'): 'log level only', ('plugin.go', 595, 'sibling-field'): 'log level only',
 ('plugin.go', 505, 'binop'): 'clamping to an equal value', ('plugin.go', 522, 'binop'): 'clamping to an equal value',
 ('plugin.go', 575, 'binop'): 'chunk-size heuristic, as above', ('plugin.go', 571, 'int+1'): 'chunk-size heuristic, as above', ('plugin.go', 570, 'binop'): 'chunk-size heuristic, as above',
 ('plugin.go', 560, 'delete-assign'): 'chunk-size heuristic, as above', ('plugin.go', 559, 'binop'): 'chunk-size heuristic, as above',
 ('stub.go', 545, 'sibling-field'): 'log level only', ('stub.go', 692, 'sibling-field'): 'log level only', ('stub.go', 649, 'sibling-field'): 'log level only',
 ('stub.go', 544, 'sibling-field'): 'connecting through the environment of a launched plugin; every harness passes a connection or dialer',
 ('stub.go', 550, 'sibling-field'): 'as above', ('stub.go', 832, 'binop'): 'plugin identity derived from the binary name',
 ('stub.go', 492, 'negate-if'): 'only skips waiting for the server goroutine of the closed session',
 ('stub.go', 481, 'sibling-field'): 'closing the mux below closes every logical connection', ('stub.go', 480, 'negate-if'): 'closing the mux below closes the listener connection too',
 ('stub.go', 708, 'sibling-field'): 'does not compile differently: see the deletion on the same line (close() resets the collected request)',
 ('stub.go', 417, 'int+1'): 'channel capacity 2 instead of 1',
 # batch 5
 ('mux.go', 275, 'binop'): 'clamping to an equal value', ('mux.go', 323, 'int+1'): 'Uint32 reads 4 bytes whatever the slice length',
 ('mux.go', 318, 'delete-call'): 'as for line 258: the error kind after a failure is not fixed by C11', ('mux.go', 338, 'delete-assign'): 'error text only',
 ('mux.go', 331, 'sibling-field'): 'a net.Conn read returns neither ttrpc error: dead case either way', ('mux.go', 311, 'sibling-field'): 'a net.Conn read returns neither ttrpc error: dead case either way',
 ('mux.go', 112, 'delete-assign'): 'ignoring the option leaves the default queue of 256, at least as long as any configured here: a receiver that keeps up with the configured length keeps up with a longer one',
 ('adaptation.go', 524, 'sibling-field'): 'log only', ('adaptation.go', 196, 'sibling-field'): 'log only', ('adaptation.go', 171, 'sibling-field'): 'log only', ('adaptation.go', 505, 'sibling-field'): 'log only',
 ('adaptation.go', 591, 'int+1'): 'guards logging only', ('adaptation.go', 594, 'int+1'): 'log text only',
 ('adaptation.go', 215, 'sibling-field'): 'as c07-no-prune', ('adaptation.go', 315, 'sibling-field'): 'as c07-no-prune', ('adaptation.go', 288, 'sibling-field'): 'as c07-no-prune',
 ('adaptation.go', 587, 'delete-call'): 'as c07-no-prune', ('adaptation.go', 587, 'sibling-field'): 'as c07-no-prune', ('adaptation.go', 458, 'delete-assign'): 'as c07-no-prune',
 ('adaptation.go', 187, 'binop'): 'only differs when the listener cannot be created (OS error)',
 ('generate.go', 445, 'negate-if'): 'rootfs propagation: excluded by design', ('generate.go', 441, 'binop'): 'rootfs propagation: excluded by design',
 ('generate.go', 382, 'sibling-field'): 'does not change which function is called with a non-empty list and an injector set',
 ('generate.go', 547, 'delete-call'): 'the spec under test always has linux resources when a block I/O class is set',
 ('generate.go', 461, 'sibling-field'): 'the mount list is assigned afresh two lines below',
 # batch 6
 ('mount.go', 53, 'negate-if'): 'mount propagation query: excluded by design',
 ('adjustment.go', 130, 'sibling-field'): 'both initialisers create the linux section first',
 ('update.go', 133, 'sibling-field'): 'adds an empty CPU section: no field of it is set', ('update.go', 174, 'sibling-field'): 'adds an empty CPU section: no field of it is set',
 ('result.go', 59, 'delete-assign'): 'appending to a nil environment is the same',
 ('result.go', 1074, 'sibling-field'): 'the owners copy is taken of the target of an ignore-failure update; annotation claims only exist for the container being created, which an update cannot target',
 ('hooks.go', 28, 'sibling-field'): 'Hooks.Append has no callers in pkg/ (the harness uses it only to build the runtime\'s original container, identically on both sides of every comparison)',
 ('hooks.go', 30, 'sibling-field'): 'as above', ('hooks.go', 32, 'sibling-field'): 'as above',
 ('hooks.go', 98, 'sibling-field'): 'OCI to NRI conversion on the runtime side, no claimed property',
 # batch 7
 ('stub.go', 485, 'sibling-field'): 'the server and the client are created together in Start: one is nil exactly when the other is',
 ('stub.go', 487, 'sibling-field'): 'the listener and the client are created together in Start; the mux Close below closes the client connection too',
 ('stub.go', 415, 'sibling-field'): 'failed Start only: both fields are overwritten by the next Start before any use, and the mux Close closes the listener',
 ('adaptation.go', 499, 'sibling-field'): 'log level only', ('plugin.go', 684, 'sibling-field'): 'log level only',
 ('plugin.go', 417, 'sibling-field'): 'log text only',
 ('plugin.go', 195, 'int+1'): 'channel capacity 2 instead of 1',
 ('mux.go', 312, 'delete-assign'): 'a net.Conn read never returns ttrpc.ErrClosed: dead case',
 ('mux.go', 333, 'sibling-field'): 'a net.Conn read never returns either ttrpc error: dead case',
 ('mux.go', 266, 'delete-assign'): 'error text only',
 ('plugin.go', 508, 'binop'): 'equal is clamped to equal either way',
 ('plugin.go', 249, 'sibling-field'): 'log text only', ('adaptation.go', 592, 'sibling-field'): 'log level only',
}
cnt = collections.Counter(r['outcome'].split(' (')[0] for r in rs)
print(len(rs), 'mutants:', dict(cnt))
print('detected by:', dict(collections.Counter(r.get('by') for r in rs if r['outcome'] == 'detected')))
cls = collections.Counter(); untriaged = []
for r in rs:
    if r['outcome'] != 'survived':
        continue
    f = r['file'].split('/')[-1]
    key = [k for k in EQUIVALENT if k[0] == f and k[1] == r['line'] and r['op'].startswith(k[2])]
    if r.get('gap'):
        cls['gap (closed: ' + r['gap'] + ')'] += 1
    elif key:
        cls['equivalent or excluded by design'] += 1
    elif r['func'] in OUT_OF_SCOPE:
        cls['outside every claimed property'] += 1
    else:
        untriaged.append(r)
print('survivors:', dict(cls))
for r in untriaged:
    print('UNTRIAGED', r['file'], r['line'], r['func'], r['op'], repr(r['old'][:80]))
sys.exit(1 if untriaged else 0)
