#!/usr/bin/env python3
"""Union of the reach probes over all evidence files: functions of the simulated packages that no check entered."""
import json, glob
rep = json.load(open('/verif/.build/main/simgen-report.json'))
names = rep["functions"]
never = None
for f in sorted(glob.glob('/verif/evidence/*.json')):
    e = json.load(open(f))
    # evidence only lists never-entered functions within scope; recompute from the per-check list is not possible -> use full lists
hit = set()
import os
for f in sorted(glob.glob('/verif/.build/reach/*.json')):
    hit.update(json.load(open(f)))
print(len(hit), "of", len(names), "functions entered by at least one check")
for i, n in enumerate(names):
    if i not in hit:
        print("  never:", n)
