// Package simsync replaces package sync in the simulated copies of NRI and ttRPC.
// Every Lock/RLock/Once.Do is a scheduling point owned by the run's scheduler: the
// caller parks on a bubble channel (a durable block for testing/synctest) until the
// scheduler grants the lock. RWMutex reproduces Go's semantics: a waiting writer blocks
// new readers, and readers that were waiting while a writer held the lock are admitted
// as a batch when it unlocks. Outside a run (sim.Cur == nil) or on the scheduler
// goroutine itself the primitives are plain uncontended locks.
package simsync

import (
	"fmt"
	"runtime"
	stdsync "sync"
	"sync/atomic"
	"time"

	"nrisim/sim"
)

type WaitGroup = stdsync.WaitGroup
type Pool = stdsync.Pool
type Map = stdsync.Map
type Locker = stdsync.Locker

var gmu stdsync.Mutex

type rwaiter struct{ admitted bool }

type RWMutex struct {
	readers  int // active + admitted readers
	writer   bool
	wwait    int
	rwaiters []*rwaiter
	holder   string // site of the current writer (diagnostics / reach measure)
}

type Mutex struct{ rw RWMutex }

func (m *Mutex) Lock()   { m.rw.lock(true) }
func (m *Mutex) Unlock() { m.rw.unlock(true) }
func (m *Mutex) TryLock() bool {
	gmu.Lock()
	defer gmu.Unlock()
	if m.rw.writer || m.rw.readers > 0 {
		return false
	}
	m.rw.writer = true
	return true
}
func (m *RWMutex) Lock()    { m.lock(true) }
func (m *RWMutex) Unlock()  { m.unlock(true) }
func (m *RWMutex) RLock()   { m.lock(false) }
func (m *RWMutex) RUnlock() { m.unlock(false) }

type Once struct {
	m    Mutex
	done atomic.Bool
}

func (o *Once) Do(f func()) {
	if o.done.Load() {
		return
	}
	o.m.rw.lock(true)
	defer o.m.rw.unlock(true)
	if !o.done.Load() {
		defer o.done.Store(true)
		f()
	}
}

func where() string { return whereN(4) }

func whereN(skip int) string {
	_, f, l, _ := runtime.Caller(skip)
	n := 0
	for i := len(f) - 1; i >= 0; i-- {
		if f[i] == '/' {
			n++
			if n == 2 {
				f = f[i+1:]
				break
			}
		}
	}
	return fmt.Sprintf("%s:%d", f, l)
}

func (m *RWMutex) lock(write bool) {
	s := sim.Cur
	if s == nil || s.IsSchedGoroutine() {
		for {
			gmu.Lock()
			if write && !m.writer && m.readers == 0 {
				m.writer = true
				gmu.Unlock()
				return
			}
			if !write && !m.writer {
				m.readers++
				gmu.Unlock()
				return
			}
			gmu.Unlock()
			if s != nil {
				// the scheduler goroutine can never wait for a lock
				panic("simsync: contended lock on the scheduler goroutine at " + where())
			}
			// outside any simulation (real-filesystem cases): really wait
			time.Sleep(20 * time.Microsecond)
		}
	}
	ch := make(chan struct{})
	site := where()
	if write {
		gmu.Lock()
		m.wwait++
		if m.writer || m.readers > 0 {
			h := m.holder
			gmu.Unlock()
			s.LockTriple(site + "<" + h)
		} else {
			gmu.Unlock()
		}
		s.Add(&sim.Item{Key: "lock:" + site,
			Ready: func() bool { gmu.Lock(); defer gmu.Unlock(); return !m.writer && m.readers == 0 },
			Fire: func(int) {
				gmu.Lock()
				m.wwait--
				m.writer = true
				m.holder = site
				gmu.Unlock()
				close(ch)
			}})
	} else {
		w := &rwaiter{}
		gmu.Lock()
		m.rwaiters = append(m.rwaiters, w)
		if m.writer {
			h := m.holder
			gmu.Unlock()
			s.LockTriple(site + "<" + h)
		} else {
			gmu.Unlock()
		}
		s.Add(&sim.Item{Key: "rlock:" + site,
			Ready: func() bool {
				gmu.Lock()
				defer gmu.Unlock()
				return w.admitted || (!m.writer && m.wwait == 0)
			},
			Fire: func(int) {
				gmu.Lock()
				if !w.admitted {
					m.readers++
				}
				for i, x := range m.rwaiters {
					if x == w {
						m.rwaiters = append(m.rwaiters[:i], m.rwaiters[i+1:]...)
						break
					}
				}
				gmu.Unlock()
				close(ch)
			}})
	}
	<-ch
}

func (m *RWMutex) unlock(write bool) {
	gmu.Lock()
	if write {
		if !m.writer {
			gmu.Unlock()
			panic("sync: unlock of unlocked mutex")
		}
		m.writer = false
		m.holder = ""
		// Go semantics: readers blocked while the writer held the lock are admitted as a batch
		for _, w := range m.rwaiters {
			if !w.admitted {
				w.admitted = true
				m.readers++
			}
		}
	} else {
		if m.readers <= 0 {
			gmu.Unlock()
			panic("sync: RUnlock of unlocked RWMutex")
		}
		m.readers--
	}
	gmu.Unlock()
}

// Cond is sync.Cond under the scheduler: Wait releases L, parks until a Signal or Broadcast has
// chosen this waiter (FIFO, as the runtime's notify list) and then takes L again - which is a
// scheduling point of its own, so another goroutine may get L first, exactly as with the real one.
type Cond struct {
	L       Locker
	waiters []*condWaiter
}

type condWaiter struct{ woken bool }

func NewCond(l Locker) *Cond { return &Cond{L: l} }

func (c *Cond) Wait() {
	w := &condWaiter{}
	gmu.Lock()
	c.waiters = append(c.waiters, w)
	gmu.Unlock()
	c.L.Unlock()
	s := sim.Cur
	if s == nil || s.IsSchedGoroutine() {
		for {
			gmu.Lock()
			ok := w.woken
			gmu.Unlock()
			if ok {
				break
			}
			if s != nil {
				panic("simsync: Cond.Wait on the scheduler goroutine at " + whereN(2))
			}
			time.Sleep(20 * time.Microsecond)
		}
	} else {
		ch := make(chan struct{})
		s.Add(&sim.Item{Key: "cond:" + whereN(2),
			Ready: func() bool { gmu.Lock(); defer gmu.Unlock(); return w.woken },
			Fire:  func(int) { close(ch) }})
		<-ch
	}
	c.L.Lock()
}

func (c *Cond) Signal() {
	gmu.Lock()
	if len(c.waiters) > 0 {
		c.waiters[0].woken = true
		c.waiters = c.waiters[1:]
	}
	gmu.Unlock()
}

func (c *Cond) Broadcast() {
	gmu.Lock()
	for _, w := range c.waiters {
		w.woken = true
	}
	c.waiters = nil
	gmu.Unlock()
}

// OnceFunc, OnceValue and OnceValues as in package sync, on top of the simulated Once.
func OnceFunc(f func()) func() {
	var o Once
	return func() { o.Do(f) }
}

func OnceValue[T any](f func() T) func() T {
	var o Once
	var v T
	return func() T { o.Do(func() { v = f() }); return v }
}

func OnceValues[T1, T2 any](f func() (T1, T2)) func() (T1, T2) {
	var o Once
	var v1 T1
	var v2 T2
	return func() (T1, T2) { o.Do(func() { v1, v2 = f() }); return v1, v2 }
}
