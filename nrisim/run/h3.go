package run

import (
	"context"
	"fmt"
	stdnet "net"
	stdsync "sync"

	"nrisim/sim"

	"github.com/containerd/nri/pkg/api"
	"github.com/containerd/nri/pkg/net/multiplex"
	"github.com/containerd/ttrpc"
)

// H3: the real stub against a scripted runtime end that speaks the protocol through
// the real mux, real ttRPC and the generated bindings.

// RTEnd is the runtime end of one connection.
type RTEnd struct {
	h    *H3
	N    int
	Kind string // healthy | refuse | silent-register | drop-after-register | silent-configure
	Conn *sim.Conn
	mux  multiplex.Mux
	srv  *ttrpc.Server
	cc   *ttrpc.Client
	PC   api.PluginService

	mu          stdsync.Mutex
	RegReq      *api.RegisterPluginRequest
	Registered  bool // RegisterPlugin reply returned OK
	Configured  bool // Configure reply received
	CfgErr      error
	Events      int32
	Synced      bool
	SyncErr     error
	SyncUpd     []*api.ContainerUpdate
	ClientDown  bool
	Ready       bool              // handshake complete
	HandshakeAt map[string][2]int // phase -> bytes written (r2p, p2r) when the phase completed
	Updates     []*api.UpdateContainersRequest
	UpdReply    func(*api.UpdateContainersRequest) (*api.UpdateContainersResponse, error)
	Pods        []*api.PodSandbox
	Ctrs        []*api.Container
	// Chunks > 1: the state is sent in that many Synchronize messages (all but the last with
	// More set); AbortAfter > 0: the runtime end drops the connection after that many chunks.
	Chunks int
	// ChunkShape: 0 pods and containers spread evenly over the messages; 1 all pods in the first
	// message (later ones carry containers only); 2 all containers in the first message; 3 as 0 with
	// an additional empty message before the last one
	ChunkShape int
	AbortAfter int
	ChunksSent int
}

type H3 struct {
	E    *Env
	S    *sim.Sched
	mu   stdsync.Mutex
	Ends []*RTEnd
	// Next decides the behaviour of the next dialled connection; "" = unreachable (dial error).
	Next func(n int) string
	// Setup, if set, configures a new runtime end before its handshake starts.
	Setup func(r *RTEnd)
	// ConfigureEntered, if set, tells how often the plugin's Configure handler has been entered so far
	ConfigureEntered func() int
	Dials            int
}

func NewH3(e *Env) *H3 {
	h := &H3{E: e, S: e.S}
	e.OnTeardown(func() {
		h.mu.Lock()
		ends := append([]*RTEnd(nil), h.Ends...)
		h.mu.Unlock()
		for _, r := range ends {
			r.Close()
		}
	})
	return h
}

// Dialer is given to the stub (stub.WithDialer).
func (h *H3) Dialer(string) (stdnet.Conn, error) {
	h.mu.Lock()
	n := h.Dials
	h.Dials++
	h.mu.Unlock()
	kind := "healthy"
	if h.Next != nil {
		kind = h.Next(n)
	}
	if kind == "" || kind == "unreachable" {
		return nil, fmt.Errorf("dial: connection refused (simulated, dial #%d)", n)
	}
	a, b := h.S.Pipe(fmt.Sprintf("s%d", n))
	h.NewEnd(n, kind, a)
	return b, nil
}

// NewEnd starts a scripted runtime end on conn.
func (h *H3) NewEnd(n int, kind string, conn *sim.Conn) *RTEnd {
	r := &RTEnd{h: h, N: n, Kind: kind, Conn: conn, HandshakeAt: map[string][2]int{}}
	if h.Setup != nil {
		h.Setup(r)
	}
	h.mu.Lock()
	h.Ends = append(h.Ends, r)
	h.mu.Unlock()
	r.mux = multiplex.Multiplex(conn)
	l, err := r.mux.Listen(multiplex.RuntimeServiceConn)
	if err != nil {
		panic(err)
	}
	r.srv, err = ttrpc.NewServer()
	if err != nil {
		panic(err)
	}
	api.RegisterRuntimeService(r.srv, r)
	cconn, err := r.mux.Open(multiplex.PluginServiceConn)
	if err != nil {
		panic(err)
	}
	r.cc = ttrpc.NewClient(cconn, ttrpc.WithOnClose(func() {
		r.mu.Lock()
		r.ClientDown = true
		r.mu.Unlock()
		// a runtime whose plugin connection is gone closes its side
		r.Close()
	}))
	r.PC = api.NewPluginClient(r.cc)
	go func() {
		h.S.SetGName(fmt.Sprintf("rt%d-serve", n))
		r.srv.Serve(context.Background(), l)
	}()
	return r
}

func (r *RTEnd) mark(phase string) {
	r.mu.Lock()
	r.HandshakeAt[phase] = [2]int{r.Conn.WrittenBytes(), r.Conn.Peer().WrittenBytes()}
	r.mu.Unlock()
}

// Close closes the runtime end (orderly).
func (r *RTEnd) Close() {
	r.mux.Close()
	r.cc.Close()
	r.srv.Close()
}

// RegisterPlugin is the runtime service handler.
func (r *RTEnd) RegisterPlugin(ctx context.Context, req *api.RegisterPluginRequest) (*api.Empty, error) {
	r.mu.Lock()
	r.RegReq = req
	r.mu.Unlock()
	r.mark("register-request-received")
	switch r.Kind {
	case "refuse":
		return nil, fmt.Errorf("registration refused by runtime end %d", r.N)
	case "silent-register":
		<-r.h.E.Hung()
		return nil, fmt.Errorf("late")
	}
	// continue the handshake from a separate goroutine once the reply is on its way
	go func() {
		r.h.S.SetGName(fmt.Sprintf("rt%d-handshake", r.N))
		r.h.S.ParkOwned(fmt.Sprintf("rt:%d:after-register", r.N), fmt.Sprintf("rt%d", r.N), nil)
		r.mu.Lock()
		r.Registered = true
		r.mu.Unlock()
		r.mark("register-reply-sent")
		r.handshake()
	}()
	return &api.Empty{}, nil
}

func (r *RTEnd) handshake() {
	switch r.Kind {
	case "drop-after-register":
		r.Close()
		return
	case "silent-configure":
		return
	case "drop-during-configure":
		// the connection goes away while the plugin's Configure handler is still running
		n0 := 0
		if r.h.ConfigureEntered != nil {
			n0 = r.h.ConfigureEntered()
		}
		go func() {
			r.h.S.SetGName(fmt.Sprintf("rt%d-configure", r.N))
			r.PC.Configure(context.Background(), &api.ConfigureRequest{Config: "cfg", RuntimeName: "simrt", RuntimeVersion: "1", RegistrationTimeout: 5000, RequestTimeout: 2000})
		}()
		r.h.S.ParkOwned(fmt.Sprintf("rt:%d:configure-entered", r.N), fmt.Sprintf("rt%d", r.N), func() bool {
			return r.h.ConfigureEntered == nil || r.h.ConfigureEntered() > n0
		})
		r.Close()
		return
	}
	ctx := context.Background()
	rpl, err := r.PC.Configure(ctx, &api.ConfigureRequest{Config: "cfg", RuntimeName: "simrt", RuntimeVersion: "1", RegistrationTimeout: 5000, RequestTimeout: 2000})
	r.mu.Lock()
	r.CfgErr = err
	if err == nil {
		r.Configured = true
		r.Events = rpl.Events
	}
	r.mu.Unlock()
	r.mark("configure-reply-received")
	if err != nil {
		r.Close()
		return
	}
	var srpl *api.SynchronizeResponse
	nch := r.Chunks
	if nch < 1 {
		nch = 1
	}
	type chunk struct {
		pods []*api.PodSandbox
		ctrs []*api.Container
	}
	var chunks []chunk
	for k := 0; k < nch; k++ {
		lo := func(n int) int { return n * k / nch }
		hi := func(n int) int { return n * (k + 1) / nch }
		c := chunk{r.Pods[lo(len(r.Pods)):hi(len(r.Pods))], r.Ctrs[lo(len(r.Ctrs)):hi(len(r.Ctrs))]}
		if nch > 1 {
			switch r.ChunkShape {
			case 1:
				c.pods = nil
				if k == 0 {
					c.pods = r.Pods
				}
			case 2:
				c.ctrs = nil
				if k == 0 {
					c.ctrs = r.Ctrs
				}
			case 3:
				if k == nch-1 {
					chunks = append(chunks, chunk{})
				}
			}
		}
		chunks = append(chunks, c)
	}
	nch = len(chunks)
	for k := 0; k < nch; k++ {
		req := &api.SynchronizeRequest{Pods: chunks[k].pods, Containers: chunks[k].ctrs, More: k < nch-1}
		srpl, err = r.PC.Synchronize(ctx, req)
		if err != nil {
			break
		}
		r.mu.Lock()
		r.ChunksSent++
		r.mu.Unlock()
		if r.AbortAfter > 0 && k+1 >= r.AbortAfter {
			r.mark("synchronize-aborted")
			r.Close()
			return
		}
	}
	r.mu.Lock()
	r.SyncErr = err
	if err == nil {
		r.Synced = true
		r.SyncUpd = srpl.GetUpdate()
		r.Ready = true
	}
	r.mu.Unlock()
	r.mark("synchronize-reply-received")
	if err != nil {
		r.Close()
	}
}

func (r *RTEnd) UpdateContainers(ctx context.Context, req *api.UpdateContainersRequest) (*api.UpdateContainersResponse, error) {
	r.mu.Lock()
	r.Updates = append(r.Updates, req)
	f := r.UpdReply
	r.mu.Unlock()
	if f != nil {
		return f(req)
	}
	return &api.UpdateContainersResponse{}, nil
}

func (r *RTEnd) IsReady() bool { r.mu.Lock(); defer r.mu.Unlock(); return r.Ready }
func (r *RTEnd) IsDown() bool  { r.mu.Lock(); defer r.mu.Unlock(); return r.ClientDown }

var h3Components = map[string]string{
	"pkg/stub":                           "real",
	"pkg/net/multiplex, pkg/net":         "real",
	"pkg/api generated ttRPC bindings":   "real",
	"github.com/containerd/ttrpc v1.2.7": "real (sync import redirected to the simulator, nothing else changed)",
	"runtime end (registration, configuration, synchronization, events)": "scripted harness code speaking the protocol through the generated client/server",
	"plugin handlers":                      "harness code",
	"unix socket, clock, locks, map order": "simulated",
}
