package run

import (
	"encoding/binary"
	"errors"
	"fmt"
	"io"
	"math/rand"
	"net"
	"strings"
	"testing"

	"nrisim/sim"

	"github.com/containerd/nri/pkg/net/multiplex"
)

// H2: two real muxes over one simulated trunk. C10 (fault-free: complete, ordered,
// isolated streams) and C11 (fail-stop under cuts, closes and overflow) share it.

const muxMaxPayload = 10 + (4 << 20) // documented frame payload limit: ttRPC header + 4 MiB

type MuxStream struct {
	ID    int   `json:"id"`
	Dir   int   `json:"dir"` // 0: end A writes, end B reads; 1: the other way
	Sizes []int `json:"sizes"`
	// Reopen > 0: after that many payloads the reader closes its logical connection and opens the
	// same id again (the writer waits at that boundary); the rest must arrive on the new connection.
	Reopen int `json:"reopen,omitempty"`
	// StaleClose: after the re-open the stale handle of the first connection is closed once more
	// (closing repeatedly is allowed and must not touch the new connection on the same id)
	StaleClose bool `json:"stale_close,omitempty"`
	// CoOpen >= 2: the reading end's logical connection is not opened during set-up but by that many
	// tasks calling Open for the id concurrently; the reader uses the handle task CoPick obtained (the
	// writer waits until then). Whichever handle a caller got, it is the connection with that id.
	// Lag: the reader does not read until the writer has written everything (at most the configured queue
	// length of frames, so the receiver "keeps up with the configured queue length")
	Lag    bool `json:"lag,omitempty"`
	CoOpen int  `json:"co_open,omitempty"`
	CoPick int  `json:"co_pick,omitempty"`
}

type MuxShared struct {
	ID  int   `json:"id"`
	Dir int   `json:"dir"`
	A   []int `json:"a"` // payload sizes of the first writer (each >= 8)
	B   []int `json:"b"`
}

type MuxFault struct {
	Kind  string `json:"kind"`  // cut | kill | close-mux | close-conn | overflow
	End   int    `json:"end"`   // close-*: which end; cut: direction (0 = A->B)
	ID    int    `json:"id"`    // close-conn / overflow: connection id
	Off   int    `json:"off"`   // cut: bytes delivered before the cut, counted from the start
	After int    `json:"after"` // close-*/kill: armed once this many payload frames were written in total
	N     int    `json:"n"`     // close-mux: number of concurrent closers
	// Transient (partial-write): the trunk write fails half-way with a timeout but the trunk stays usable:
	// nothing may follow the torn frame
	Transient bool `json:"transient,omitempty"`
}

type MuxW struct {
	Focus   string      `json:"focus"`
	Qlen    int         `json:"qlen"`
	IDs     []int       `json:"ids"`
	Listen  []int       `json:"listen,omitempty"` // ids opened through Listen()/Accept() on end B
	Streams []MuxStream `json:"streams"`
	Faults  []MuxFault  `json:"faults,omitempty"`
	// Orphans: streams written on a connection id that is open only at the writing end; the
	// receiving mux drops those frames (documented), which must not disturb any other stream.
	Orphans []MuxStream `json:"orphans,omitempty"`
	// Shared: connection ids written by TWO concurrent writer tasks at the same end (payloads carry a
	// record header); the stream read must be a serialisation of whole payloads, each writer's in order.
	Shared []MuxShared `json:"shared,omitempty"`
	// Blocked: end B's mux is created with WithBlockedRead and unblocked at a scheduler-chosen moment;
	// everything written before must still arrive.
	Blocked bool `json:"blocked,omitempty"`
	// LateOpen (with Blocked): for every stream read at end B on an id not accepted through a listener,
	// the first payload is written before B has opened the connection; B opens it and only then unblocks
	// its reader, so the payload must still arrive (what WithBlockedRead is for)
	LateOpen bool `json:"late_open,omitempty"`
	// NeverUnblock (with Blocked, C11): end B is closed without ever having been unblocked; its Close
	// must return all the same and fail everything blocked on that end
	NeverUnblock bool `json:"never_unblock,omitempty"`
	Closers      int  `json:"closers"` // concurrent closers of the final orderly close
	CloseB       bool `json:"close_b"` // final close on end B instead of A
}

var muxSizes = []int{0, 1, 7, 8, 9, 100, 1000, 4095, 4096, 4097, 65536}
var muxBigSizes = []int{muxMaxPayload - 1, muxMaxPayload, muxMaxPayload + 1, 2*muxMaxPayload + muxMaxPayload/2}

func muxGen(focus string) func(rng *rand.Rand, conf string, idx int) any {
	return func(rng *rand.Rand, conf string, idx int) any {
		w := &MuxW{Focus: focus, Closers: 1 + rng.Intn(3), CloseB: rng.Intn(2) == 0, Blocked: rng.Intn(4) == 0}
		if focus == "C10" && rng.Intn(25) == 0 {
			// a long configured queue (beyond the default of 256) and a reader that lags behind by hundreds of frames
			lw := &MuxW{Focus: focus, Closers: 1, Qlen: pick(rng, []int{400, 512, 1024}), IDs: []int{1, 2}}
			st := MuxStream{ID: 1, Dir: rng.Intn(2), Lag: true}
			for n, cnt := 0, 260+rng.Intn(lw.Qlen-260); n < cnt; n++ {
				st.Sizes = append(st.Sizes, 1+rng.Intn(24))
			}
			lw.Streams = []MuxStream{st, {ID: 2, Dir: rng.Intn(2), Sizes: []int{5, 0, 9}}}
			return lw
		}
		w.LateOpen = w.Blocked && focus == "C10" && rng.Intn(2) == 0
		if w.Blocked && focus == "C11" && rng.Intn(3) == 0 {
			w.NeverUnblock, w.CloseB = true, true
		}
		w.Qlen = pick(rng, []int{1, 2, 3, 4, 8, 16, 64, 256})
		k := 1 + rng.Intn(6)
		for _, id := range rng.Perm(9)[:k] {
			w.IDs = append(w.IDs, id+1)
			if rng.Intn(4) == 0 {
				w.Listen = append(w.Listen, id+1)
			}
		}
		big := conf == "big"
		for _, id := range w.IDs {
			for dir := 0; dir < 2; dir++ {
				if rng.Intn(4) == 0 {
					continue
				}
				st := MuxStream{ID: id, Dir: dir}
				for n, cnt := 0, 1+rng.Intn(6*deep(conf)); n < cnt; n++ {
					sz := pick(rng, muxSizes)
					if rng.Intn(3) == 0 {
						sz = rng.Intn(300)
					}
					if big && rng.Intn(6) == 0 && w.Qlen >= 4 {
						sz = pick(rng, muxBigSizes)
					}
					st.Sizes = append(st.Sizes, sz)
				}
				if focus == "C10" && dir == 0 && rng.Intn(5) == 0 {
					// concurrent first opens at the reading end B: only for an id used by this stream alone, not accepted through a listener
					lis := false
					for _, l := range w.Listen {
						if l == id {
							lis = true
						}
					}
					if !lis {
						st.CoOpen = 2 + rng.Intn(3)
						st.CoPick = rng.Intn(st.CoOpen)
					}
				}
				if focus == "C10" && dir == 1 && len(st.Sizes) >= 2 && rng.Intn(5) == 0 {
					// only when this id carries no stream in the other direction (the reader's connection is
					// closed and re-opened, which would disturb a writer using it)
					other := false
					for _, x := range w.Streams {
						if x.ID == id {
							other = true
						}
					}
					lis := false
					for _, l := range w.Listen {
						if l == id {
							lis = true
						}
					}
					if !other && !lis {
						st.Reopen = 1 + rng.Intn(len(st.Sizes)-1)
						st.StaleClose = rng.Intn(2) == 0
					}
				}
				w.Streams = append(w.Streams, st)
			}
		}
		if rng.Intn(3) == 0 {
			for n, cnt := 0, 1+rng.Intn(2); n < cnt; n++ {
				st := MuxStream{ID: 20 + n, Dir: rng.Intn(2)}
				for k, m := 0, 1+rng.Intn(4); k < m; k++ {
					st.Sizes = append(st.Sizes, pick(rng, []int{0, 1, 9, 100, 300, 1000, 4096}))
				}
				w.Orphans = append(w.Orphans, st)
			}
		}
		if focus == "C10" && w.Qlen >= 4 && rng.Intn(3) == 0 {
			sh := MuxShared{ID: 30, Dir: rng.Intn(2)}
			sz := func() int {
				x := 8 + rng.Intn(400)
				if rng.Intn(4) == 0 {
					x = pick(rng, []int{4096, 65536})
				}
				if big && rng.Intn(2) == 0 {
					x = pick(rng, []int{muxMaxPayload + 1, 2*muxMaxPayload + 20})
				}
				return x
			}
			for k, n := 0, 1+rng.Intn(4); k < n; k++ {
				sh.A = append(sh.A, sz())
			}
			for k, n := 0, 1+rng.Intn(4); k < n; k++ {
				sh.B = append(sh.B, sz())
			}
			w.Shared = append(w.Shared, sh)
		}
		if conf == "grid" {
			// enumerated: fixed traffic, cut at every byte offset of the A->B or B->A transcript
			w = &MuxW{Focus: focus, Qlen: 4, IDs: []int{1, 2}, Closers: 1, Streams: []MuxStream{
				{ID: 1, Dir: 0, Sizes: []int{5, 40, 0, 17}}, {ID: 2, Dir: 0, Sizes: []int{33, 9}},
				{ID: 1, Dir: 1, Sizes: []int{21, 3}}, {ID: 2, Dir: 1, Sizes: []int{64}}}}
			w.Faults = []MuxFault{{Kind: "cut", End: idx / 220 % 2, Off: idx % 220}}
			return w
		}
		if focus == "C11" {
			total := 0
			for _, s := range w.Streams {
				total += len(s.Sizes)
			}
			nf := 1 + rng.Intn(2)
			for i := 0; i < nf; i++ {
				f := MuxFault{Kind: pick(rng, []string{"cut", "cut", "kill", "close-mux", "close-mux", "close-conn", "overflow", "stall-close", "partial-write", "freeze-close", "freeze-close"}), End: rng.Intn(2)}
				f.After = rng.Intn(total + 1)
				f.ID = pick(rng, w.IDs)
				f.Off = rng.Intn(40 + 30*total)
				f.N = 1 + rng.Intn(4)
				f.Transient = f.Kind == "partial-write" && rng.Intn(2) == 0
				w.Faults = append(w.Faults, f)
			}
		}
		if w.NeverUnblock {
			w.Faults = nil // a blocked end notices nothing: only its own Close is examined in such a run
		}
		return w
	}
}

// stamp fills the payload bytes of stream (id, dir) starting at stream offset off.
func muxStamp(id, dir, off int, p []byte) {
	for i := range p {
		o := off + i
		p[i] = byte((o*131)^(o>>8)^(id*29)^(dir*97)) | 1
	}
}

type muxSide struct {
	got    []byte // reader: bytes received
	rerr   error
	rdone  bool
	werr   error
	wdone  bool
	wrote  int // bytes whose Write returned nil
	frames int // payload frames fully written
	reads  int // frames consumed by the reader
}

func framesOf(sz int) int {
	if sz <= muxMaxPayload {
		return 1
	}
	return (sz + muxMaxPayload - 1) / muxMaxPayload
}

func muxRun(t *testing.T, wl any, sc SchedCfg) *Result {
	w := wl.(*MuxW)
	return Bubble(t, sc, func(e *Env) {
		res := e.Res
		e.S.IdleLimit = 2
		ta, tb := e.S.Pipe("trunk")
		ta.WPark, tb.WPark = true, true
		ma := multiplex.Multiplex(ta, multiplex.WithReadQueueLength(w.Qlen))
		optsB := []multiplex.Option{multiplex.WithReadQueueLength(w.Qlen)}
		if w.Blocked {
			optsB = append(optsB, multiplex.WithBlockedRead())
		}
		mb := multiplex.Multiplex(tb, optsB...)
		late := map[int]*MuxStream{} // id -> stream whose first payload precedes B's Open
		if w.Blocked && w.LateOpen {
			isLis := map[int]bool{}
			for _, id := range w.Listen {
				isLis[id] = true
			}
			for i := range w.Streams {
				if st := &w.Streams[i]; st.Dir == 0 && !isLis[st.ID] && st.CoOpen == 0 && len(st.Sizes) > 0 && st.Sizes[0] <= muxMaxPayload {
					late[st.ID] = st
				}
			}
		}
		if w.Blocked && len(late) == 0 && !w.NeverUnblock {
			e.Task("unblock", func() { mb.Unblock(); mb.Unblock() })
		}
		if w.NeverUnblock {
			e.S.Probe("C11.blocked-end-closed-without-unblock")
		}
		if w.Blocked {
			e.S.Probe("C10.reader-blocked-until-unblock")
		}
		muxes := []multiplex.Mux{ma, mb}
		conns := [2]map[int]net.Conn{{}, {}}
		listeners := map[int]net.Listener{}
		lis := map[int]bool{}
		for _, id := range w.Listen {
			lis[id] = true
		}
		coOpen := map[int]*MuxStream{}
		for i := range w.Streams {
			if st := &w.Streams[i]; st.CoOpen >= 2 && st.Dir == 0 && !lis[st.ID] {
				coOpen[st.ID] = st
			}
		}
		for _, id := range w.IDs {
			var c net.Conn
			var err error
			if id%2 == 0 {
				c, err = ma.Dialer(multiplex.ConnID(id))("unix", "ignored")
			} else {
				c, err = ma.Open(multiplex.ConnID(id))
			}
			if err != nil {
				res.Violate(w.Focus+".setup", "open %d: %v", id, err)
				return
			}
			if c2, _ := ma.Open(multiplex.ConnID(id)); c2 != c {
				res.Violate(w.Focus+".setup", "opening connection %d a second time returned a different connection", id)
			}
			conns[0][id] = c
			if lis[id] {
				l, err := mb.Listen(multiplex.ConnID(id))
				if err != nil {
					res.Violate(w.Focus+".setup", "listen %d: %v", id, err)
					return
				}
				listeners[id] = l
				c, err := l.Accept()
				if err != nil {
					res.Violate("C11.listener", "first Accept on the listener of connection %d failed: %v", id, err)
					return
				}
				conns[1][id] = c
			} else if co := coOpen[id]; co != nil {
				// opened below, by several tasks at once
			} else if late[id] != nil {
				// opened below, after the first payload was written
			} else {
				c, err := mb.Open(multiplex.ConnID(id))
				if err != nil {
					res.Violate(w.Focus+".setup", "open %d: %v", id, err)
					return
				}
				conns[1][id] = c
			}
		}
		if len(coOpen) > 0 {
			got := map[int][]net.Conn{}
			for id, st := range coOpen {
				id, st := id, st
				got[id] = make([]net.Conn, st.CoOpen)
				for k := 0; k < st.CoOpen; k++ {
					k := k
					e.Task(fmt.Sprintf("co-open-%d-%d", id, k), func() {
						c, err := mb.Open(multiplex.ConnID(id))
						if err != nil {
							res.Violate(w.Focus+".setup", "open %d: %v", id, err)
						}
						got[id][k] = c
					})
				}
			}
			if err := e.RunUntil(100000, func() bool { return e.TasksDone() }); err != nil {
				res.Violate(w.Focus+".setup", "concurrent opens: %v", err)
				return
			}
			for id, st := range coOpen {
				if got[id][st.CoPick] == nil {
					return
				}
				conns[1][id] = got[id][st.CoPick]
			}
			e.S.Probe("C10.connection-first-opened-by-concurrent-callers")
		}
		preWritten := map[string]bool{}
		if len(late) > 0 {
			for id, st := range late {
				id, st := id, st
				e.Task(fmt.Sprintf("early-writer-%d", id), func() {
					p := make([]byte, st.Sizes[0])
					muxStamp(st.ID, st.Dir, 0, p)
					if n, err := conns[0][id].Write(p); err != nil || n != len(p) {
						res.Violate(w.Focus+".setup", "early write on %d: %d, %v", id, n, err)
					}
				})
			}
			if err := e.RunUntil(100000, func() bool { return e.TasksDone() }); err != nil {
				res.Violate(w.Focus+".setup", "early writes: %v", err)
				return
			}
			for id, st := range late {
				c, err := mb.Open(multiplex.ConnID(id))
				if err != nil {
					res.Violate(w.Focus+".setup", "open %d: %v", id, err)
					return
				}
				conns[1][id] = c
				preWritten[fmt.Sprintf("%d/%d", st.ID, st.Dir)] = true
			}
			e.Task("unblock", func() { mb.Unblock(); mb.Unblock() })
			e.S.Probe("C10.payload-written-before-the-blocked-end-opened-the-connection")
		}
		// second Accept must block until the listener is closed, then return io.EOF
		accept2 := map[int]*struct {
			done bool
			err  error
			c    net.Conn
		}{}
		for id, l := range listeners {
			id, l := id, l
			a := &struct {
				done bool
				err  error
				c    net.Conn
			}{}
			accept2[id] = a
			e.Task(fmt.Sprintf("accept2-%d", id), func() {
				a.c, a.err = l.Accept()
				a.done = true
			})
		}
		sides := map[string]*muxSide{}
		key := func(id, dir int) string { return fmt.Sprintf("%d/%d", id, dir) }
		totalFrames := 0
		withheld := map[string]bool{}
		reopened := map[string]bool{}
		nofc := map[string]bool{}
		for _, f := range w.Faults {
			if f.Kind == "overflow" {
				// the reader of this connection is withheld (and flow control off) until the fault "resumes" it
				for _, st := range w.Streams {
					if st.ID == f.ID && st.Dir == f.End {
						withheld[key(st.ID, st.Dir)] = true
						nofc[key(st.ID, st.Dir)] = true
					}
				}
			}
		}
		failed := false // a mux-level failure was injected
		frozenClose := false
		_ = frozenClose
		for _, st := range w.Streams {
			st := st
			sd := &muxSide{}
			sides[key(st.ID, st.Dir)] = sd
			want := 0
			maxsz := 1
			wantFrames := 0
			for _, sz := range st.Sizes {
				wantFrames += framesOf(sz)
				want += sz
				if sz > maxsz {
					maxsz = sz
				}
			}
			if maxsz > muxMaxPayload {
				maxsz = muxMaxPayload
			}
			wc, rc := conns[st.Dir][st.ID], conns[1-st.Dir][st.ID]
			k := key(st.ID, st.Dir)
			if preWritten[k] {
				sd.wrote, sd.frames = st.Sizes[0], 1
				totalFrames++
			}
			e.Task("writer-"+k, func() {
				off := 0
				for pi, sz := range st.Sizes {
					if pi == 0 && preWritten[k] {
						off += sz
						continue
					}
					if st.Reopen > 0 && pi == st.Reopen {
						e.S.ParkOwned("wgate-reopen:"+k, "writer-"+k, func() bool { return reopened[k] || sd.rdone })
					}
					// flow control: "the receiver keeps up with the configured queue length"
					fr := framesOf(sz)
					e.S.ParkOwned("wgate:"+k, "writer-"+k, func() bool {
						return nofc[k] || sd.frames-sd.reads+fr <= w.Qlen || sd.rdone
					})
					p := make([]byte, sz)
					muxStamp(st.ID, st.Dir, off, p)
					n, err := wc.Write(p)
					if err != nil {
						sd.werr = err
						break
					}
					if n != sz {
						sd.werr = fmt.Errorf("short write %d of %d without error", n, sz)
						break
					}
					off += sz
					sd.wrote = off
					sd.frames += fr
					totalFrames += fr
				}
				sd.wdone = true
			})
			e.Task("reader-"+k, func() {
				buf := make([]byte, maxsz)
				reopenAt := -1
				if st.Reopen > 0 {
					reopenAt = 0
					for _, sz := range st.Sizes[:st.Reopen] {
						reopenAt += framesOf(sz)
					}
				}
				for sd.reads < wantFrames {
					if sd.reads == reopenAt && !reopened[k] {
						rc.Close()
						stale := rc
						nc, err := muxes[1-st.Dir].Open(multiplex.ConnID(st.ID))
						if err != nil {
							sd.rerr = err
							break
						}
						if st.StaleClose {
							stale.Close()
							e.S.Probe("C10.stale-handle-closed-again-after-reopen")
						}
						rc = nc
						conns[1-st.Dir][st.ID] = nc
						reopened[k] = true
						e.S.Probe("C10.logical-connection-closed-and-reopened")
					}
					e.S.ParkOwned("rgate:"+k, "reader-"+k, func() bool { return !withheld[k] && (!st.Lag || sd.wdone) })
					n, err := rc.Read(buf)
					if err != nil {
						sd.rerr = err
						break
					}
					sd.reads++
					sd.got = append(sd.got, buf[:n]...)
				}
				sd.rdone = true
			})
		}
		// orphan streams: the id is opened at the writing end only
		for oi, st := range w.Orphans {
			st := st
			m := muxes[st.Dir]
			oc, err := m.Open(multiplex.ConnID(st.ID))
			if err != nil {
				res.Violate(w.Focus+".setup", "open orphan %d: %v", st.ID, err)
				return
			}
			e.S.Probe("C10.frames-for-a-connection-not-open-at-the-receiver")
			e.Task(fmt.Sprintf("orphan-writer-%d", oi), func() {
				off := 0
				for _, sz := range st.Sizes {
					p := make([]byte, sz)
					muxStamp(st.ID, st.Dir, off, p)
					if _, err := oc.Write(p); err != nil {
						return
					}
					off += sz
				}
			})
		}
		// shared streams: two writers on one connection
		type sharedState struct {
			got           []byte
			rerr          error
			rdone         bool
			frames, reads int
			werr          [2]error
		}
		var shared []*sharedState
		for si, sh := range w.Shared {
			sh := sh
			ss := &sharedState{}
			shared = append(shared, ss)
			wc, err1 := muxes[sh.Dir].Open(multiplex.ConnID(sh.ID))
			rc, err2 := muxes[1-sh.Dir].Open(multiplex.ConnID(sh.ID))
			if err1 != nil || err2 != nil {
				res.Violate(w.Focus+".setup", "open shared %d: %v %v", sh.ID, err1, err2)
				return
			}
			total, totalFr, maxsz := 0, 0, 16
			for _, lst := range [][]int{sh.A, sh.B} {
				for _, sz := range lst {
					total += sz
					totalFr += framesOf(sz)
					if sz > maxsz {
						maxsz = sz
					}
				}
			}
			if maxsz > muxMaxPayload {
				maxsz = muxMaxPayload
			}
			e.S.Probe("C10.two-writers-on-one-connection")
			for wi, lst := range [][]int{sh.A, sh.B} {
				wi, lst := wi, lst
				e.Task(fmt.Sprintf("shared-writer-%d-%d", si, wi), func() {
					for seq, sz := range lst {
						fr := framesOf(sz)
						e.S.ParkOwned(fmt.Sprintf("wgate-shared:%d:%d", si, wi), fmt.Sprintf("shared-writer-%d-%d", si, wi), func() bool {
							return ss.frames-ss.reads+fr <= w.Qlen || ss.rdone
						})
						ss.frames += fr // reserve before writing: both writers share the queue
						p := make([]byte, sz)
						p[0], p[1] = byte(wi+1), byte(seq)
						binary.BigEndian.PutUint32(p[2:6], uint32(sz))
						for i := 6; i < sz; i++ {
							p[i] = byte((i*31)^(wi*101)^(seq*57)) | 1
						}
						if _, err := wc.Write(p); err != nil {
							ss.werr[wi] = err
							return
						}
					}
				})
			}
			e.Task(fmt.Sprintf("shared-reader-%d", si), func() {
				buf := make([]byte, maxsz)
				for ss.reads < totalFr {
					n, err := rc.Read(buf)
					if err != nil {
						ss.rerr = err
						break
					}
					ss.reads++
					ss.got = append(ss.got, buf[:n]...)
				}
				ss.rdone = true
			})
			_ = total
		}
		// faults
		for i, f := range w.Faults {
			i, f := i, f
			switch f.Kind {
			case "cut":
				c := ta
				if f.End == 1 {
					c = tb
				}
				c.CutWrite(f.Off, false)
			case "kill", "close-mux", "close-conn":
				e.S.Add(&simItem{Key: fmt.Sprintf("fault:%d:%s", i, f.Kind), Owner: "fault",
					Ready: func() bool { return totalFrames >= f.After },
					Fire: func(int) {
						e.S.Probe("C11.fault." + f.Kind)
						switch f.Kind {
						case "kill":
							failed = true
							ta.Kill(f.End == 1)
						case "close-mux":
							failed = true
							for n := 0; n < f.N; n++ {
								n := n
								e.Task(fmt.Sprintf("closer-%d-%d", i, n), func() { muxes[f.End].Close() })
							}
						case "close-conn":
							if c := conns[f.End][f.ID]; c != nil {
								e.Task(fmt.Sprintf("conncloser-%d", i), func() { c.Close(); c.Close() })
							}
						}
					}})
			case "partial-write":
				// the write by end f.End that crosses f.Off bytes is partial and fails (peer died mid-write)
				c := ta
				if f.End == 1 {
					c = tb
				}
				if f.Transient {
					c.FailWriteOnceAt(f.Off)
					e.S.Probe("C11.partial-trunk-write-on-a-trunk-that-stays-usable")
				} else {
					c.FailWriteAt(f.Off)
				}
			case "freeze-close":
				// the direction written by end f.End goes silent after f.Off delivered bytes (possibly in the
				// middle of a frame) without any end of stream; once nothing else happens the RECEIVING end is
				// closed locally: that Close, and everything blocked on that end, must still return
				c := ta
				if f.End == 1 {
					c = tb
				}
				c.FreezeWrite(f.Off)
				recv := 1 - f.End
				e.S.Add(&simItem{Key: fmt.Sprintf("fault:%d:close-frozen", i), Owner: "fault", Last: true,
					Fire: func(int) {
						e.S.Probe("C11.fault.freeze-close")
						failed = true
						frozenClose = true
						for n := 0; n < f.N; n++ {
							n := n
							e.Task(fmt.Sprintf("closer-%d-%d", i, n), func() { muxes[recv].Close() })
						}
					}})
			case "stall-close":
				// end f.End's peer stops draining: its trunk writes block; later that end is closed
				c := ta
				if f.End == 1 {
					c = tb
				}
				e.S.Add(&simItem{Key: fmt.Sprintf("fault:%d:stall", i), Owner: "fault",
					Ready: func() bool { return totalFrames >= f.After },
					Fire: func(int) {
						c.StallWrites(true)
						e.S.Probe("C11.fault.stall-close")
						failed = true
						// ... and once a writer is stuck (or nothing else happens) the stalled end is closed
						e.S.Add(&simItem{Key: fmt.Sprintf("fault:%d:close-stalled", i), Owner: "fault", Last: true,
							Fire: func(int) {
								for n := 0; n < f.N; n++ {
									n := n
									e.Task(fmt.Sprintf("closer-%d-%d", i, n), func() { muxes[f.End].Close() })
								}
							}})
					}})
			case "overflow":
				e.S.Add(&simItem{Key: fmt.Sprintf("fault:%d:resume", i), Owner: "fault",
					Ready: func() bool {
						sd := sides[key(f.ID, f.End)]
						tc := ta
						if f.End == 1 {
							tc = tb
						}
						// resume only once the piled-up frames have actually crossed the trunk
						return sd != nil && (sd.frames-sd.reads > w.Qlen+1 || sd.wdone) && (tc.DeliveredBytes() == tc.WrittenBytes() || tc.Faulted())
					},
					Fire: func(int) {
						withheld[key(f.ID, f.End)] = false
					}})
			}
		}
		// phase 1: traffic and faults until nothing is enabled any more
		err := e.RunUntil(3000000, func() bool { return false })
		if err == sim.ErrSteps {
			res.Violate(w.Focus+".steps", "step budget exhausted")
			return
		}
		exempt := map[int]bool{} // ids with a locally closed logical connection: the peer may legitimately wait forever
		for _, f := range w.Faults {
			if f.Kind == "close-conn" {
				exempt[f.ID] = true
			}
		}
		for _, f := range w.Faults {
			if f.Kind != "overflow" {
				continue
			}
			sd := sides[key(f.ID, f.End)]
			if sd == nil {
				continue
			}
			if sd.rerr != nil && !exempt[f.ID] {
				// the withheld reader was resumed and got an error: the queue overflowed and the mux failed
				if !failed {
					e.S.Probe("C11.fault.overflow")
				}
				failed = true
			} else if !failed && !exempt[f.ID] && !sd.rdone {
				res.Violate("C11.overflow", "connection %d direction %d: the reader was withheld while %d frames were written (queue length %d), resumed, and is now blocked with %d of the bytes: frames were lost but the mux did not fail",
					f.ID, f.End, sd.frames, w.Qlen, len(sd.got))
			}
		}
		cutHit := ta.Faulted() || tb.Faulted()
		hasCut := false
		for _, f := range w.Faults {
			if f.Kind == "cut" {
				hasCut = true
			}
		}
		if cutHit && hasCut && !failed {
			e.S.Probe("C11.fault.cut-reached")
		}
		if cutHit && len(w.Faults) > 0 {
			failed = true
		} else if cutHit {
			res.Violate("C10.complete", "the mux closed its trunk although no failure was injected and the receivers kept up (queue length %d)", w.Qlen)
		}
		// prefix / completeness
		complete := true
		for _, st := range w.Streams {
			sd := sides[key(st.ID, st.Dir)]
			want := 0
			for _, sz := range st.Sizes {
				want += sz
			}
			exp := make([]byte, len(sd.got))
			muxStamp(st.ID, st.Dir, 0, exp)
			for i := range exp {
				if exp[i] != sd.got[i] {
					res.Violate(w.Focus+".stream-content", "connection %d direction %d: byte %d of the stream read is %#x, written was %#x (read %d bytes so far, %d written): not a prefix of what was sent",
						st.ID, st.Dir, i, sd.got[i], exp[i], len(sd.got), sd.wrote)
					break
				}
			}
			if len(sd.got) > want {
				res.Violate(w.Focus+".stream-content", "connection %d direction %d: read %d bytes, only %d were written", st.ID, st.Dir, len(sd.got), want)
			}
			if len(sd.got) != want || sd.rerr != nil || sd.werr != nil {
				complete = false
			}
		}
		for si, sh := range w.Shared {
			ss := shared[si]
			if failed || len(w.Faults) > 0 {
				continue
			}
			if ss.rerr != nil || ss.werr[0] != nil || ss.werr[1] != nil || !ss.rdone {
				res.Violate("C10.complete", "shared connection %d: reader done=%v err=%v, writer errors %v %v without any failure injected", sh.ID, ss.rdone, ss.rerr, ss.werr[0], ss.werr[1])
				continue
			}
			// the stream must parse as whole payloads, each writer's in its own order
			next := [2]int{}
			lists := [2][]int{sh.A, sh.B}
			pos := 0
			for pos < len(ss.got) {
				if pos+6 > len(ss.got) {
					res.Violate("C10.stream-content", "shared connection %d: %d trailing bytes do not form a payload header", sh.ID, len(ss.got)-pos)
					break
				}
				wi, seq, ln := int(ss.got[pos])-1, int(ss.got[pos+1]), int(binary.BigEndian.Uint32(ss.got[pos+2:pos+6]))
				if wi < 0 || wi > 1 || seq != next[wi] || seq >= len(lists[wi]) || ln != lists[wi][seq] || pos+ln > len(ss.got) {
					res.Violate("C10.stream-content", "shared connection %d (two concurrent writers): at byte %d of the stream read there is no whole payload of either writer in its order (header says writer %d, payload #%d, %d bytes; expected next payloads #%d and #%d): payloads of the two writers are interleaved or damaged", sh.ID, pos, wi+1, seq, ln, next[0], next[1])
					break
				}
				okBody := true
				for i := 6; i < ln; i++ {
					if ss.got[pos+i] != byte((i*31)^(wi*101)^(seq*57))|1 {
						okBody = false
						res.Violate("C10.stream-content", "shared connection %d: payload #%d of writer %d is damaged at its byte %d", sh.ID, seq, wi+1, i)
						break
					}
				}
				if !okBody {
					break
				}
				next[wi]++
				pos += ln
			}
			if len(res.Violations) == 0 && (next[0] != len(sh.A) || next[1] != len(sh.B)) {
				res.Violate("C10.complete", "shared connection %d: %d+%d payloads read, %d+%d written", sh.ID, next[0], next[1], len(sh.A), len(sh.B))
			}
		}
		closeConn := false
		for _, f := range w.Faults {
			if f.Kind == "close-conn" {
				closeConn = true
			}
		}
		if !failed && !closeConn {
			// C10: nothing failed, so everything must have arrived
			for _, st := range w.Streams {
				sd := sides[key(st.ID, st.Dir)]
				want := 0
				for _, sz := range st.Sizes {
					want += sz
				}
				if sd.werr != nil {
					res.Violate("C10.complete", "connection %d direction %d: Write failed without any failure injected: %v", st.ID, st.Dir, sd.werr)
				} else if sd.rerr != nil {
					res.Violate("C10.complete", "connection %d direction %d: Read failed without any failure injected: %v", st.ID, st.Dir, sd.rerr)
				} else if len(sd.got) != want {
					res.Violate("C10.complete", "connection %d direction %d: the receiver kept up (queue length %d) but read only %d of %d bytes and is blocked", st.ID, st.Dir, w.Qlen, len(sd.got), want)
				}
			}
		}
		if failed {
			// C11: after a mux-level failure every blocked read and write must have returned
			for _, st := range w.Streams {
				sd := sides[key(st.ID, st.Dir)]
				if exempt[st.ID] {
					continue
				}
				if !sd.rdone {
					res.Violate("C11.blocked-after-failure", "connection %d direction %d: a Read is still blocked after the failure was delivered and the system drained", st.ID, st.Dir)
				}
				if !sd.wdone {
					res.Violate("C11.blocked-after-failure", "connection %d direction %d: a Write (or its writer) is still blocked after the failure", st.ID, st.Dir)
				}
			}
		}
		// after a failure detected by one end itself (queue overflow, partial trunk write) the readers of
		// that end must see the failure, not a clean end-of-file ("end-of-file after an orderly close")
		// (only for an overflow: there the failing end's single demultiplexer latches the error before it
		// wakes anybody; after a partial write the peer's reaction can legitimately reach the error
		// latch first, so nothing is asserted about the kind of error there)
		if len(w.Faults) == 1 && w.Faults[0].Kind == "overflow" && failed {
			f := w.Faults[0]
			detecting := 1 - f.End // overflow: the end that reads the flooded stream
			if f.Kind == "partial-write" {
				detecting = f.End
				if e.S.Net.PartialWrites == 0 {
					detecting = -1 // the failing write wrote nothing: a plain EPIPE, the mux stays up until the peer closes
				}
			}
			for _, st := range w.Streams {
				sd := sides[key(st.ID, st.Dir)]
				if 1-st.Dir == detecting && sd.rerr == io.EOF {
					all := ""
					for _, s2 := range w.Streams {
						x := sides[key(s2.ID, s2.Dir)]
						all += fmt.Sprintf(" [%d/%d r=%v w=%v]", s2.ID, s2.Dir, x.rerr, x.werr)
					}
					res.Violate("C11.error-kind", "connection %d direction %d: end %d of the mux failed (%s) but a Read on it reported a clean end-of-file instead of the failure; partial writes %d; all streams:%s", st.ID, st.Dir, detecting, f.Kind, e.S.Net.PartialWrites, all)
				}
			}
			res.Probe("C11.error-kind-checked")
		}
		// an orderly Close of a mux in the middle of the traffic (the only fault of the run): on the end
		// that closed, readers see end-of-file, not a failure
		if len(w.Faults) == 1 && w.Faults[0].Kind == "close-mux" {
			f := w.Faults[0]
			for _, st := range w.Streams {
				sd := sides[key(st.ID, st.Dir)]
				if 1-st.Dir == f.End && sd.rerr != nil && !errors.Is(sd.rerr, io.EOF) {
					res.Violate("C11.error-kind", "connection %d direction %d: end %d of the mux was closed in an orderly way in mid-traffic but a Read on it reported %v instead of end-of-file", st.ID, st.Dir, f.End, sd.rerr)
				}
			}
			res.Probe("C11.error-kind-after-own-close-checked")
		}
		// phase 2: orderly close of one end by several concurrent closers, then of the other
		first, second := 0, 1
		if w.CloseB {
			first, second = 1, 0
		}
		for n := 0; n < w.Closers; n++ {
			n := n
			e.Task(fmt.Sprintf("final-closer-%d", n), func() { muxes[first].Close(); muxes[first].Close() })
		}
		for id, l := range listeners {
			l := l
			e.Task(fmt.Sprintf("lcloser-%d", id), func() { l.Close(); l.Close() })
		}
		if w.Closers > 1 {
			// ... and, at the same moment, of its logical connections, by one or two closers each
			for _, id := range w.IDs {
				if c := conns[first][id]; c != nil {
					for n := 0; n < w.Closers-1; n++ {
						e.Task(fmt.Sprintf("conn-closer-%d-%d", id, n), func() { c.Close(); c.Close() })
					}
				}
			}
			res.Probe("C11.connections-and-mux-closed-concurrently")
		}
		e.RunUntil(1000000, func() bool { return false })
		for _, st := range w.Streams {
			sd := sides[key(st.ID, st.Dir)]
			if !sd.rdone || !sd.wdone {
				res.Violate("C11.blocked-after-close", "connection %d direction %d: reader done=%v writer done=%v after end %d of the mux was closed and the system drained", st.ID, st.Dir, sd.rdone, sd.wdone, first)
			}
			if sd.rdone && sd.rerr != nil && !failed && !closeConn && complete == false {
				_ = sd
			}
		}
		for id, a := range accept2 {
			if !a.done {
				res.Violate("C11.listener", "second Accept on the listener of connection %d still blocked after the listener was closed", id)
			} else if a.err != io.EOF || a.c != nil {
				res.Violate("C11.listener", "second Accept on the listener of connection %d returned (%v, %v), want (nil, EOF)", id, a.c, a.err)
			}
		}
		if e.Unfinished() > 0 {
			res.Violate("C11.blocked-after-close", "%d task(s) still blocked after both failure and close: %v", e.Unfinished(), e.S.Pending())
		}
		// later operations on every connection of both ends fail without blocking
		type post struct {
			done       bool
			rerr, werr error
		}
		posts := map[string]*post{}
		e.Task("second-close", func() { muxes[second].Close() })
		e.RunUntil(1000000, func() bool { return false })
		for end := 0; end < 2; end++ {
			for _, id := range w.IDs {
				end, id := end, id
				p := &post{}
				posts[fmt.Sprintf("end%d/%d", end, id)] = p
				e.Task(fmt.Sprintf("post-%d-%d", end, id), func() {
					_, p.werr = conns[end][id].Write([]byte{1, 2, 3})
					// frames still queued at close time may be returned first (not asserted either way)
					buf := make([]byte, muxMaxPayload)
					for k := 0; k < w.Qlen+2 && p.rerr == nil; k++ {
						_, p.rerr = conns[end][id].Read(buf)
					}
					p.done = true
				})
			}
		}
		e.RunUntil(1000000, func() bool { return false })
		for _, k := range sortedKeys(posts) {
			p := posts[k]
			if !p.done {
				res.Violate("C11.later-ops", "%s: a Read or Write issued after the mux was closed blocks", k)
				continue
			}
			if p.werr == nil {
				res.Violate("C11.later-ops", "%s: Write after close returned no error", k)
			}
			if p.rerr == nil {
				res.Violate("C11.later-ops", "%s: Read after close returned no error", k)
			} else if !failed && !closeConn && !errors.Is(p.rerr, io.EOF) {
				res.Violate("C11.later-ops", "%s: Read after an orderly close returned %v, want end-of-file", k, p.rerr)
			}
		}
		nbytes := 0
		for _, sd := range sides {
			nbytes += len(sd.got)
		}
		res.Nontrivial = len(w.Streams) >= 2 && nbytes > 0
		if w.Focus == "C11" {
			res.Nontrivial = failed || nbytes > 0
		}
		res.Summary = map[string]any{"streams": len(w.Streams), "bytes_read": nbytes, "failure_injected": failed, "all_complete": complete, "qlen": w.Qlen}
		keep := res.Violations[:0]
		for _, v := range res.Violations {
			if strings.HasPrefix(v.Oracle, w.Focus+".") {
				keep = append(keep, v)
			}
		}
		res.Violations = keep
	})
}

func muxShrink(wl any) []any {
	w := wl.(*MuxW)
	var out []any
	for i := range w.Streams {
		if len(w.Streams) > 1 {
			c := jsonClone(w)
			c.Streams = append(c.Streams[:i], c.Streams[i+1:]...)
			out = append(out, c)
		}
	}
	for i := range w.Faults {
		c := jsonClone(w)
		c.Faults = append(c.Faults[:i], c.Faults[i+1:]...)
		out = append(out, c)
	}
	for i := range w.Orphans {
		c := jsonClone(w)
		c.Orphans = append(c.Orphans[:i], c.Orphans[i+1:]...)
		out = append(out, c)
	}
	if len(w.Shared) > 0 {
		c := jsonClone(w)
		c.Shared = nil
		out = append(out, c)
	}
	for i := range w.Streams {
		for k := range w.Streams[i].Sizes {
			if len(w.Streams[i].Sizes) > 1 {
				c := jsonClone(w)
				c.Streams[i].Sizes = append(c.Streams[i].Sizes[:k], c.Streams[i].Sizes[k+1:]...)
				out = append(out, c)
			}
			if w.Streams[i].Sizes[k] > 8 {
				c := jsonClone(w)
				c.Streams[i].Sizes[k] = 8
				out = append(out, c)
			}
		}
	}
	if len(w.Listen) > 0 {
		c := jsonClone(w)
		c.Listen = nil
		out = append(out, c)
	}
	if w.Closers > 1 {
		c := jsonClone(w)
		c.Closers = 1
		out = append(out, c)
	}
	return out
}

var h2Components = map[string]string{
	"pkg/net/multiplex (mux, conn, reader, write path)": "real",
	"pkg/net/conn.go (connListener)":                    "real",
	"trunk socket, lock scheduling, map order":          "simulated",
	"readers, writers, closers":                         "harness tasks",
}

func init() {
	register(&Property{
		ID: "C10", Gen: muxGen("C10"), New: func() any { return &MuxW{} }, Run: muxRun, Shrink: muxShrink,
		Confs: func(tier string) []Conf {
			return []Conf{{Name: "small", Weight: 30}, {Name: "big", Weight: 1}}
		},
		Components: h2Components,
		Rule:       "two muxes over one simulated trunk, 1-6 connection ids (some through Listen/Accept), queue length from {1,2,3,4,8,16,64,256}, one writer and one reader task per (id, direction), 1-6 payloads of sizes {0,1,7,8,9,100,1000,4095..4097,64Ki, 0..299} (conf big: also max-1, max, max+1, 2.5*max with max = 4 MiB + 10), every trunk Write is a scheduling point and deliveries split anywhere; writers obey 'receiver keeps up'; non-trivial = at least two streams carried data; distinct = distinct event-log hash",
	})
	register(&Property{
		ID: "C11", Gen: muxGen("C11"), New: func() any { return &MuxW{} }, Run: muxRun, Shrink: muxShrink,
		Confs: func(tier string) []Conf {
			if tier == "thorough" {
				return []Conf{{Name: "grid", Grid: 440}, {Name: "small", Weight: 30}, {Name: "big", Weight: 1}, {Name: "deep", Weight: 6}}
			}
			return []Conf{{Name: "grid", Grid: 440}, {Name: "small", Weight: 30}, {Name: "big", Weight: 1}}
		},
		Components: h2Components,
		Rule:       "grid: fixed traffic (2 ids, 4 streams), trunk cut after every byte offset 0..219 in either direction; random: the C10 workload plus 1-2 faults (cut at a byte offset, peer death, Close of either mux by 1-4 concurrent closers, Close of one logical connection, receive-queue overflow with the reader resumed afterwards); every run ends with an orderly close by 1-3 concurrent closers and a probe Read/Write on every connection; non-trivial = a failure was injected or data flowed",
	})
}
