package run

import (
	"encoding/json"
	"fmt"
	"math/rand"
	"os"
	"sort"
	"strings"
	"testing"

	"github.com/containerd/nri/pkg/api"
	ngen "github.com/containerd/nri/pkg/runtime-tools/generate"
	rspec "github.com/opencontainers/runtime-spec/specs-go"
	rgen "github.com/opencontainers/runtime-tools/generate"
)

// Shared harness of C01-C05: N plugins registered up front, M concurrent runtime callers
// issuing create / update / stop requests whose scripted replies come from the workload.

type MW struct {
	Focus   string      `json:"focus"`
	Plugins []C07Plugin `json:"plugins"`
	Callers [][]*MReq   `json:"callers"`
	// Exits (single-caller workloads only): the named plugin stops itself after the caller's request
	// with the given index has returned; once that has settled the later requests are merged from the
	// remaining plugins, still in index order.
	Exits []MExit `json:"exits,omitempty"`
	// Twins: two of the plugins are instances registered under the same name and index (their relative
	// invocation order is unspecified): only the conflict verdict and the final values are judged.
	Twins bool `json:"twins,omitempty"`
}

type MExit struct {
	Plugin   string `json:"plugin"`
	AfterReq int    `json:"after_req"`
}

// ---- builders: workload items -> real protocol messages ---------------------------------

func applyResOp(o MOp, mem *api.LinuxMemory, cpu *api.LinuxCPU, r *api.LinuxResources) {
	v := int64(o.Val)
	switch o.Kind {
	case "mem.limit":
		mem.Limit = api.Int64(v)
	case "mem.reservation":
		mem.Reservation = api.Int64(v)
	case "mem.swap":
		mem.Swap = api.Int64(v)
	case "mem.kernel":
		mem.Kernel = api.Int64(v)
	case "mem.kernel_tcp":
		mem.KernelTcp = api.Int64(v)
	case "mem.swappiness":
		mem.Swappiness = api.UInt64(uint64(v))
	case "mem.disable_oom":
		mem.DisableOomKiller = api.Bool(true)
	case "mem.use_hierarchy":
		mem.UseHierarchy = api.Bool(true)
	case "cpu.shares":
		cpu.Shares = api.UInt64(uint64(v))
	case "cpu.quota":
		cpu.Quota = api.Int64(v)
	case "cpu.period":
		cpu.Period = api.UInt64(uint64(v))
	case "cpu.rt_runtime":
		cpu.RealtimeRuntime = api.Int64(v)
	case "cpu.rt_period":
		cpu.RealtimePeriod = api.UInt64(uint64(v))
	case "cpu.cpus":
		cpu.Cpus = valStr(o.Kind, o.Val)
	case "cpu.mems":
		cpu.Mems = valStr(o.Kind, o.Val)
	case "pids":
		r.Pids = &api.LinuxPids{Limit: v}
	case "blockio":
		r.BlockioClass = api.String(valStr(o.Kind, o.Val))
	case "rdt":
		r.RdtClass = api.String(valStr(o.Kind, o.Val))
	case "huge":
		r.HugepageLimits = append(r.HugepageLimits, &api.HugepageLimit{PageSize: o.Key, Limit: uint64(v)})
	case "unified":
		if r.Unified == nil {
			r.Unified = map[string]string{}
		}
		r.Unified[o.Key] = valStr(o.Kind, o.Val)
	}
}

// buildResources builds a LinuxResources message; nil if ops has no resource item.
func buildResources(ops []MOp) *api.LinuxResources {
	var r *api.LinuxResources
	for _, o := range ops {
		if !isResource(o.Kind) {
			continue
		}
		if r == nil {
			r = &api.LinuxResources{}
		}
		if strings.HasPrefix(o.Kind, "mem.") && r.Memory == nil {
			r.Memory = &api.LinuxMemory{}
		}
		if strings.HasPrefix(o.Kind, "cpu.") && r.Cpu == nil {
			r.Cpu = &api.LinuxCPU{}
		}
		applyResOp(o, r.Memory, r.Cpu, r)
	}
	return r
}

// mkMount, mkHooks, mkRlimit: every field of the item varies with the value, and the value of the item
// in the model is its whole description, so a dropped or mixed-up field shows.
func mkMount(dest string, v int) *api.Mount {
	m := &api.Mount{Destination: dest, Source: fmt.Sprintf("/src/v%d", v)}
	switch v % 3 {
	case 0:
		m.Type, m.Options = "bind", []string{"bind", "ro"}
	case 1:
		m.Type, m.Options = "tmpfs", []string{"rw", "nosuid", fmt.Sprintf("size=%dk", v%97+1)}
	default:
		m.Type, m.Options = "bind", []string{"rbind", "rw", "noexec", "nodev"}
	}
	return m
}

func mountDesc(source, typ string, options []string) string {
	return source + " " + typ + " " + strings.Join(options, ",")
}

func mkHook(v int) *api.Hook {
	h := &api.Hook{Path: fmt.Sprintf("/hook/v%d", v), Args: []string{"hook", fmt.Sprintf("a%d", v)}}
	if v%2 == 0 {
		h.Env = []string{fmt.Sprintf("H=%d", v), "X=1"}
	}
	if v%3 == 0 {
		h.Timeout = api.Int(v%50 + 1)
	}
	return h
}

func hookDesc(path string, args, env []string, timeout *int) string {
	s := path + " [" + strings.Join(args, " ") + "]"
	if len(env) > 0 {
		s += " env=" + strings.Join(env, ",")
	}
	if timeout != nil {
		s += fmt.Sprintf(" timeout=%d", *timeout)
	}
	return s
}

func mkRlimit(typ string, v int) *api.POSIXRlimit {
	return &api.POSIXRlimit{Type: typ, Hard: uint64(v), Soft: uint64(v) / 2}
}

func rlimitDesc(hard, soft uint64) string { return fmt.Sprintf("%d:%d", hard, soft) }

// mkDevice: type, minor, file mode and ownership vary with the value so that a mixed-up or shared
// field shows (the value of a device item is its whole description, devDesc).
func mkDevice(path string, v int) *api.LinuxDevice {
	d := &api.LinuxDevice{Path: path, Type: "c", Major: int64(v), Minor: int64(v%5 + 1)}
	if v%2 == 1 {
		d.Type = "b"
	}
	if v%3 == 0 {
		d.FileMode = api.FileMode(os.FileMode(0o600 + v%7))
	}
	if v%4 == 0 {
		d.Uid = api.UInt32(uint32(1000 + v%10))
	}
	if v%5 == 0 {
		d.Gid = api.UInt32(uint32(2000 + v%10))
	}
	return d
}

func devDesc(typ string, major, minor int64, mode *os.FileMode, uid, gid *uint32) string {
	s := fmt.Sprintf("%s %d:%d", typ, major, minor)
	if mode != nil {
		s += fmt.Sprintf(" mode=%o", uint32(*mode))
	}
	if uid != nil {
		s += fmt.Sprintf(" uid=%d", *uid)
	}
	if gid != nil {
		s += fmt.Sprintf(" gid=%d", *gid)
	}
	return s
}

func devDescNRI(d *api.LinuxDevice) string {
	return devDesc(d.Type, d.Major, d.Minor, d.FileMode.Get(), d.Uid.Get(), d.Gid.Get())
}

func mkHooks(typ string, v int) *api.Hooks {
	h := []*api.Hook{mkHook(v)}
	switch typ {
	case "prestart":
		return &api.Hooks{Prestart: h}
	case "poststart":
		return &api.Hooks{Poststart: h}
	case "poststop":
		return &api.Hooks{Poststop: h}
	case "createruntime":
		return &api.Hooks{CreateRuntime: h}
	case "createcontainer":
		return &api.Hooks{CreateContainer: h}
	}
	return &api.Hooks{StartContainer: h}
}

// buildContainer builds the runtime's original container from "set" items.
// fixedDesc describes the parts of a container no adjustment can touch.
func fixedDesc(c *api.Container) string {
	if c == nil {
		return "<nil>"
	}
	var ls []string
	for k, v := range c.Labels {
		ls = append(ls, k+"="+v)
	}
	sort.Strings(ls)
	return fmt.Sprintf("id=%s pod=%s name=%s state=%v pid=%d labels=[%s]", c.Id, c.PodSandboxId, c.Name, c.State, c.Pid, strings.Join(ls, ","))
}

func buildContainer(id, pod string, orig []MOp) *api.Container {
	c := &api.Container{Id: id, PodSandboxId: pod, Name: "ctr-" + id, State: api.ContainerState_CONTAINER_CREATED}
	if len(orig)%2 == 0 {
		c.Labels = map[string]string{"io.kubernetes.container.name": "ctr-" + id, "tier": fmt.Sprint(len(orig))}
	}
	for _, o := range orig {
		switch o.Kind {
		case "ann":
			if c.Annotations == nil {
				c.Annotations = map[string]string{}
			}
			c.Annotations[o.Key] = valStr(o.Kind, o.Val)
		case "env":
			c.Env = append(c.Env, o.Key+"="+valStr(o.Kind, o.Val))
		case "mount":
			c.Mounts = append(c.Mounts, mkMount(o.Key, o.Val))
		case "dev":
			if c.Linux == nil {
				c.Linux = &api.LinuxContainer{}
			}
			c.Linux.Devices = append(c.Linux.Devices, mkDevice(o.Key, o.Val))
		case "args":
			c.Args = argsOf(o.Val)
		case "hook":
			if c.Hooks == nil {
				c.Hooks = &api.Hooks{}
			}
			c.Hooks = c.Hooks.Append(mkHooks(o.Key, o.Val))
		case "rlimit":
			c.Rlimits = append(c.Rlimits, mkRlimit(o.Key, o.Val))
		case "cgpath":
			if c.Linux == nil {
				c.Linux = &api.LinuxContainer{}
			}
			c.Linux.CgroupsPath = valStr(o.Kind, o.Val)
		case "oom":
			if c.Linux == nil {
				c.Linux = &api.LinuxContainer{}
			}
			c.Linux.OomScoreAdj = &api.OptionalInt{Value: int64(o.Val)}
		}
	}
	if r := buildResources(orig); r != nil {
		if c.Linux == nil {
			c.Linux = &api.LinuxContainer{}
		}
		c.Linux.Resources = r
	}
	return c
}

// buildAdjust builds a plugin's adjustment with the plugin-facing helper API.
// stripArgsMarker builds it as the sequential side of the C03 differential needs it.
func buildAdjust(ops []MOp, stripArgsMarker bool) *api.ContainerAdjustment {
	if len(ops) == 0 {
		return nil
	}
	a := &api.ContainerAdjustment{}
	for _, o := range ops {
		rm := o.Act == "rm" || o.Act == "rmset"
		set := o.Act == "set" || o.Act == "rmset"
		switch o.Kind {
		case "ann":
			if rm {
				a.RemoveAnnotation(o.Key)
			}
			if set {
				a.AddAnnotation(o.Key, valStr(o.Kind, o.Val))
			}
		case "env":
			if rm {
				a.RemoveEnv(o.Key)
			}
			if set {
				a.AddEnv(o.Key, valStr(o.Kind, o.Val))
			}
		case "mount":
			if rm {
				a.RemoveMount(o.Key)
			}
			if set {
				a.AddMount(mkMount(o.Key, o.Val))
			}
		case "dev":
			if rm {
				a.RemoveDevice(o.Key)
			}
			if set {
				a.AddDevice(mkDevice(o.Key, o.Val))
			}
		case "args":
			if o.Act == "rmset" && !stripArgsMarker {
				a.UpdateArgs(argsOf(o.Val))
			} else if o.Act == "rm" && !stripArgsMarker {
				a.UpdateArgs(nil) // the bare removal marker
			} else if set {
				a.SetArgs(argsOf(o.Val))
			}
		case "cdi":
			a.AddCDIDevice(&api.CDIDevice{Name: o.Key})
		case "rlimit":
			a.AddRlimit(o.Key, uint64(o.Val), uint64(o.Val)/2)
		case "hook":
			a.AddHooks(mkHooks(o.Key, o.Val))
		case "cgpath":
			a.SetLinuxCgroupsPath(valStr(o.Kind, o.Val))
		case "oom":
			v := o.Val
			a.SetLinuxOomScoreAdj(&v)
		case "mem.limit":
			a.SetLinuxMemoryLimit(int64(o.Val))
		case "mem.reservation":
			a.SetLinuxMemoryReservation(int64(o.Val))
		case "mem.swap":
			a.SetLinuxMemorySwap(int64(o.Val))
		case "mem.kernel":
			a.SetLinuxMemoryKernel(int64(o.Val))
		case "mem.kernel_tcp":
			a.SetLinuxMemoryKernelTCP(int64(o.Val))
		case "mem.swappiness":
			a.SetLinuxMemorySwappiness(uint64(o.Val))
		case "mem.disable_oom":
			a.SetLinuxMemoryDisableOomKiller()
		case "mem.use_hierarchy":
			a.SetLinuxMemoryUseHierarchy()
		case "cpu.shares":
			a.SetLinuxCPUShares(uint64(o.Val))
		case "cpu.quota":
			a.SetLinuxCPUQuota(int64(o.Val))
		case "cpu.period":
			a.SetLinuxCPUPeriod(int64(o.Val))
		case "cpu.rt_runtime":
			a.SetLinuxCPURealtimeRuntime(int64(o.Val))
		case "cpu.rt_period":
			a.SetLinuxCPURealtimePeriod(uint64(o.Val))
		case "cpu.cpus":
			a.SetLinuxCPUSetCPUs(valStr(o.Kind, o.Val))
		case "cpu.mems":
			a.SetLinuxCPUSetMems(valStr(o.Kind, o.Val))
		case "pids":
			a.SetLinuxPidLimits(int64(o.Val))
		case "blockio":
			a.SetLinuxBlockIOClass(valStr(o.Kind, o.Val))
		case "rdt":
			a.SetLinuxRDTClass(valStr(o.Kind, o.Val))
		case "huge":
			a.AddLinuxHugepageLimit(o.Key, uint64(o.Val))
		case "unified":
			a.AddLinuxUnified(o.Key, valStr(o.Kind, o.Val))
		}
	}
	return a
}

func buildUpdate(u MUpdate) *api.ContainerUpdate {
	cu := &api.ContainerUpdate{ContainerId: u.Target}
	if u.Ignore {
		cu.SetIgnoreFailure() // the plugin-facing helper
	}
	if u.NoRes {
		return cu
	}
	for _, o := range u.Ops {
		switch o.Kind {
		case "mem.limit":
			cu.SetLinuxMemoryLimit(int64(o.Val))
		case "mem.reservation":
			cu.SetLinuxMemoryReservation(int64(o.Val))
		case "mem.swap":
			cu.SetLinuxMemorySwap(int64(o.Val))
		case "mem.kernel":
			cu.SetLinuxMemoryKernel(int64(o.Val))
		case "mem.kernel_tcp":
			cu.SetLinuxMemoryKernelTCP(int64(o.Val))
		case "mem.swappiness":
			cu.SetLinuxMemorySwappiness(uint64(o.Val))
		case "mem.disable_oom":
			cu.SetLinuxMemoryDisableOomKiller()
		case "mem.use_hierarchy":
			cu.SetLinuxMemoryUseHierarchy()
		case "cpu.shares":
			cu.SetLinuxCPUShares(uint64(o.Val))
		case "cpu.quota":
			cu.SetLinuxCPUQuota(int64(o.Val))
		case "cpu.period":
			cu.SetLinuxCPUPeriod(int64(o.Val))
		case "cpu.rt_runtime":
			cu.SetLinuxCPURealtimeRuntime(int64(o.Val))
		case "cpu.rt_period":
			cu.SetLinuxCPURealtimePeriod(uint64(o.Val))
		case "cpu.cpus":
			cu.SetLinuxCPUSetCPUs(valStr(o.Kind, o.Val))
		case "cpu.mems":
			cu.SetLinuxCPUSetMems(valStr(o.Kind, o.Val))
		case "pids":
			cu.SetLinuxPidLimits(int64(o.Val))
		case "blockio":
			cu.SetLinuxBlockIOClass(valStr(o.Kind, o.Val))
		case "rdt":
			cu.SetLinuxRDTClass(valStr(o.Kind, o.Val))
		case "huge":
			cu.AddLinuxHugepageLimit(o.Key, uint64(o.Val))
		case "unified":
			cu.AddLinuxUnified(o.Key, valStr(o.Kind, o.Val))
		}
	}
	return cu
}

// ---- generator ---------------------------------------------------------------------------

type itemSpec struct{ kind, key string }

var adjustItems = func() []itemSpec {
	it := []itemSpec{
		{"ann", "a1"}, {"ann", "a2"}, {"env", "E1"}, {"env", "E2"}, {"mount", "/m1"}, {"mount", "/m2"}, {"mount", "/m1/sub"},
		{"dev", "/dev/d1"}, {"dev", "/dev/d2"}, {"dev", "/dev//d3"}, {"mount", "/m4/../m4"}, {"env", "e-3"}, {"ann", "a.b/c-d"}, {"args", ""}, {"cdi", "vendor.com/dev=c1"}, {"cdi", "vendor.com/dev=c2"},
		{"rlimit", "RLIMIT_NOFILE"}, {"rlimit", "RLIMIT_NPROC"}, {"huge", "2M"}, {"huge", "1G"}, {"unified", "u1"}, {"unified", "u2"},
		{"cgpath", ""}, {"oom", ""},
	}
	for _, s := range append(append(append([]string{}, memScalars...), cpuScalars...), otherScalars...) {
		it = append(it, itemSpec{s, ""})
	}
	return it
}()

var resourceItems = func() []itemSpec {
	var it []itemSpec
	for _, s := range adjustItems {
		if isResource(s.kind) {
			it = append(it, s)
		}
	}
	return it
}()

var hookTypes = []string{"prestart", "poststart", "poststop", "createruntime", "createcontainer", "startcontainer"}

type mgen struct {
	rng  *rand.Rand
	next int
}

func (g *mgen) val() int { g.next++; return g.next }

// valFor is val with an occasional value at a type boundary for the integer-valued kinds.
func (g *mgen) valFor(kind string) int {
	v := g.val()
	switch kind {
	case "mem.limit", "mem.reservation", "mem.swap", "mem.kernel", "mem.kernel_tcp", "cpu.quota", "cpu.rt_runtime", "pids":
		if g.rng.Intn(20) == 0 {
			return pick(g.rng, []int{1<<63 - 1, 1 << 32, 1<<31 - 1})
		}
	case "mem.swappiness", "cpu.shares", "cpu.period", "cpu.rt_period", "huge", "rlimit":
		if g.rng.Intn(20) == 0 {
			return pick(g.rng, []int{1<<63 - 1, 1 << 32, 1<<32 - 1})
		}
	}
	// zero and negative values are values too ("no limit", "the default"): setting them is setting
	switch kind {
	case "pids", "cpu.quota", "mem.swap":
		if g.rng.Intn(8) == 0 {
			return pick(g.rng, []int{0, -1})
		}
	case "oom":
		if g.rng.Intn(6) == 0 {
			return pick(g.rng, []int{0, 0, -1000, 1000})
		}
	case "cpu.shares", "mem.swappiness":
		if g.rng.Intn(12) == 0 {
			return 0
		}
	}
	return v
}

// genOrig populates an original container / update request.
func (g *mgen) genOrig(kind string, full bool) []MOp {
	var ops []MOp
	p := 0.45
	if full {
		p = 1
	}
	items := adjustItems
	if kind == "update" {
		items = resourceItems
	}
	for _, it := range items {
		if it.kind == "cdi" {
			continue
		}
		if g.rng.Float64() < p {
			ops = append(ops, MOp{Kind: it.kind, Key: it.key, Act: "set", Val: g.valFor(it.kind)})
		}
	}
	if kind == "create" && g.rng.Intn(2) == 0 {
		ops = append(ops, MOp{Kind: "hook", Key: pick(g.rng, hookTypes), Act: "set", Val: g.val()})
	}
	if kind == "stop" {
		return nil
	}
	return ops
}

// genReq generates one request with replies for the plugins (in invocation order).
// collide is the probability that a touch of an item owned by another plugin is a plain
// set (a conflict); with collide = 0 the request is conflict-free by construction.
func (g *mgen) genReq(kind, id string, order []string, collide float64, focus string) *MReq {
	rq := &MReq{Kind: kind, ID: id, Replies: map[string]*MReply{}}
	rq.Orig = g.genOrig(kind, g.rng.Intn(4) == 0)
	owned := map[string]string{} // target|item -> plugin (the generator's own bookkeeping)
	// values an item currently has (the runtime's original, then whatever a plugin set last): now and
	// then a plugin sets an item to the value it already has - which is setting it all the same
	current := map[string]int{}
	for _, o := range rq.Orig {
		if o.Kind != "hook" {
			current[id+"|"+o.Kind+"|"+o.Key] = o.Val
		}
	}
	touch := 0.22
	if focus == "C01" || focus == "C02" {
		touch = 0.3
	}
	targets := []string{"t1", "t2"}
	if kind == "update" {
		targets = append(targets, id, id)
	}
	for _, p := range order {
		rp := &MReply{}
		if kind == "create" {
			its := append([]itemSpec(nil), adjustItems...)
			g.rng.Shuffle(len(its), func(i, j int) { its[i], its[j] = its[j], its[i] })
			for _, it := range its {
				if g.rng.Float64() >= touch {
					continue
				}
				key := id + "|" + it.kind + "|" + it.key
				o := MOp{Kind: it.kind, Key: it.key, Val: g.valFor(it.kind)}
				if cv, has := current[key]; has && g.rng.Intn(6) == 0 {
					o.Val = cv
				}
				current[key] = o.Val
				prev, taken := owned[key]
				switch {
				case taken && prev == p:
					continue
				case taken && g.rng.Float64() < collide:
					o.Act = "set"
				case taken && removable(it.kind):
					o.Act = pick(g.rng, []string{"rm", "rmset", "rmset"})
				case taken:
					continue
				case removable(it.kind):
					o.Act = pick(g.rng, []string{"set", "set", "rm", "rmset"})

				default:
					o.Act = "set"
				}
				switch o.Act {
				case "rm":
					delete(owned, key)
				default:
					owned[key] = p
				}
				rp.Ops = append(rp.Ops, o)
			}
			for k, n := 0, g.rng.Intn(3); k < n && g.rng.Intn(2) == 0; k++ {
				rp.Ops = append(rp.Ops, MOp{Kind: "hook", Key: pick(g.rng, hookTypes), Act: "set", Val: g.val()})
			}
		}
		nup := 0
		switch g.rng.Intn(4) {
		case 0:
			nup = 1
		case 1:
			nup = 1 + g.rng.Intn(3)
		}
		if focus == "C05" || kind != "create" {
			nup = g.rng.Intn(4)
		}
		used := map[string]bool{} // target|item touched by this plugin in this reply
		for k := 0; k < nup; k++ {
			u := MUpdate{Target: pick(g.rng, targets), Ignore: g.rng.Intn(3) == 0}
			if kind == "create" && focus == "C05" && g.rng.Intn(25) == 0 {
				u.Target = id // update of the container being created: must fail the request
			}
			if g.rng.Intn(12) == 0 {
				u.NoRes = true
			}
			its := append([]itemSpec(nil), resourceItems...)
			g.rng.Shuffle(len(its), func(i, j int) { its[i], its[j] = its[j], its[i] })
			pt := 0.12 + 0.2*g.rng.Float64()
			for _, it := range its {
				if u.NoRes || g.rng.Float64() >= pt {
					continue
				}
				key := u.Target + "|" + it.kind + "|" + it.key
				if used[key] {
					continue
				}
				prev, taken := owned[key]
				if taken && prev == p {
					continue
				}
				if taken && !(g.rng.Float64() < collide) && !(u.Ignore && (focus == "C05" || focus == "C04" || focus == "C02") && g.rng.Intn(3) == 0) {
					continue
				}
				used[key] = true
				u.Ops = append(u.Ops, MOp{Kind: it.kind, Key: it.key, Act: "set", Val: g.valFor(it.kind)})
			}
			// the generator's bookkeeping: claims of an update that will be dropped are not kept
			clash := false
			for _, o := range u.Ops {
				if prev, taken := owned[u.Target+"|"+o.item()]; taken && prev != p {
					clash = true
				}
			}
			if !clash {
				for _, o := range u.Ops {
					owned[u.Target+"|"+o.item()] = p
				}
			}
			rp.Updates = append(rp.Updates, u)
		}
		if len(rp.Ops) > 0 || len(rp.Updates) > 0 {
			rq.Replies[p] = rp
		}
	}
	return rq
}

func mergeGen(focus string) func(rng *rand.Rand, conf string, idx int) any {
	return func(rng *rand.Rand, conf string, idx int) any {
		g := &mgen{rng: rng}
		w := &MW{Focus: focus}
		names := []string{"ada", "ben", "cal", "dee", "eli"}
		n := 2 + rng.Intn(4)
		if conf == "deep" {
			n = 4 + rng.Intn(2)
		}
		if conf == "two" {
			n = 2
		}
		idxs := rng.Perm(100)[:n]
		rng.Shuffle(n, func(i, j int) { names[i], names[j] = names[j], names[i] })
		for k := 0; k < n; k++ {
			w.Plugins = append(w.Plugins, C07Plugin{Name: names[k], Idx: fmt.Sprintf("%02d", idxs[k])})
		}
		if conf == "twins" {
			return genTwins(g, w, focus)
		}
		order := invocationOrder(w.Plugins)
		m := 1 + rng.Intn(3*deep(conf))
		for c := 0; c < m; c++ {
			var reqs []*MReq
			for k, nr := 0, 1+rng.Intn(3); k < nr; k++ {
				kind := "create"
				switch focus {
				case "C03", "C04":
					if focus == "C04" && rng.Intn(3) == 0 {
						kind = "update"
					}
				default:
					kind = pick(rng, []string{"create", "create", "update", "update", "stop"})
				}
				collide := 0.0
				if focus == "C01" && rng.Intn(3) != 0 {
					collide = 0.5
				}
				if focus == "C05" && rng.Intn(4) == 0 {
					collide = 0.3
				}
				reqs = append(reqs, g.genReq(kind, fmt.Sprintf("c%d-%d", c, k), order, collide, focus))
			}
			w.Callers = append(w.Callers, reqs)
		}
		if len(w.Callers) == 1 && len(w.Callers[0]) >= 2 && n >= 3 && rng.Intn(2) == 0 {
			// a plugin other than the last ones in the order goes away part-way
			w.Exits = append(w.Exits, MExit{Plugin: order[rng.Intn(n-1)], AfterReq: rng.Intn(len(w.Callers[0]) - 1)})
		}
		return w
	}
}

// genTwins: plugin 1 is a second instance of plugin 0 (same registered name and index). The twins
// only use plain sets (no removal markers), on items that do not depend on order.
func genTwins(g *mgen, w *MW, focus string) *MW {
	rng := g.rng
	w.Twins = true
	w.Plugins = w.Plugins[:2]
	w.Plugins[1] = C07Plugin{Name: w.Plugins[0].Name + "~2", Idx: w.Plugins[0].Idx, RegName: w.Plugins[0].Name}
	var items []itemSpec
	for _, it := range adjustItems {
		switch it.kind {
		case "args", "rlimit", "cdi": // ordered lists / marker semantics: leave out
		default:
			items = append(items, it)
		}
	}
	var reqs []*MReq
	for k, nr := 0, 1+rng.Intn(3); k < nr; k++ {
		kind := pick(rng, []string{"create", "create", "update", "stop"})
		rq := &MReq{Kind: kind, ID: fmt.Sprintf("c0-%d", k), Replies: map[string]*MReply{}}
		rq.Orig = g.genOrig(kind, rng.Intn(4) == 0)
		collide := rng.Intn(2) == 0 && focus == "C01"
		used := map[string]bool{}
		for pi, p := range w.Plugins {
			rp := &MReply{}
			if kind == "create" {
				for _, it := range items {
					key := "adj|" + it.kind + "|" + it.key
					if rng.Float64() < 0.2 && (!used[key] || (collide && pi == 1 && rng.Intn(2) == 0)) {
						used[key] = true
						rp.Ops = append(rp.Ops, MOp{Kind: it.kind, Key: it.key, Act: "set", Val: g.valFor(it.kind)})
					}
				}
			}
			for u, nu := 0, rng.Intn(3); u < nu; u++ {
				up := MUpdate{Target: pick(rng, []string{"t1", "t2"})}
				for _, it := range resourceItems {
					key := up.Target + "|" + it.kind + "|" + it.key
					if rng.Float64() < 0.15 && (!used[key] || (collide && pi == 1 && rng.Intn(2) == 0)) {
						if used[key] && pi == 0 {
							continue
						}
						used[key] = true
						up.Ops = append(up.Ops, MOp{Kind: it.kind, Key: it.key, Act: "set", Val: g.valFor(it.kind)})
					}
				}
				rp.Updates = append(rp.Updates, up)
			}
			rq.Replies[p.Name] = rp
		}
		reqs = append(reqs, rq)
	}
	w.Callers = [][]*MReq{reqs}
	return w
}

// invocationOrder: plugin names sorted by two-digit index (indices are distinct here).
func invocationOrder(ps []C07Plugin) []string {
	s := append([]C07Plugin(nil), ps...)
	sort.Slice(s, func(i, j int) bool { return s[i].Idx < s[j].Idx })
	var out []string
	for _, p := range s {
		out = append(out, p.Name)
	}
	return out
}

// ---- run ---------------------------------------------------------------------------------

type mOut struct {
	Req  *MReq
	Resp any
	Err  error
	Done bool
}

func mergeRun(t *testing.T, wl any, sc SchedCfg) *Result {
	w := wl.(*MW)
	return Bubble(t, sc, func(e *Env) {
		res := e.Res
		h := NewH1(e, hugeTimeout, hugeTimeout)
		byID := map[string]*MReq{}
		for _, reqs := range w.Callers {
			for _, rq := range reqs {
				byID[rq.ID] = rq
			}
		}
		h.Script = func(plugin, rpc, token string) *Reply {
			rq := byID[token]
			if rq == nil {
				return nil
			}
			rp := rq.Replies[plugin]
			if rp == nil {
				return nil
			}
			r := &Reply{}
			if rq.Kind == "create" {
				r.Adjust = buildAdjust(rp.Ops, false)
			}
			for _, u := range rp.Updates {
				r.Updates = append(r.Updates, buildUpdate(u))
			}
			return r
		}
		// registration order is random and independent of index order
		for _, pw := range w.Plugins {
			reg := pw.RegName
			if reg == "" {
				reg = pw.Name
			}
			p := h.AddPluginAs(pw.Name, reg, pw.Idx, 0)
			h.StartTask(p)
		}
		if err := e.RunUntil(300000, func() bool { return e.TasksDone() && h.L.AcceptCount() >= len(w.Plugins)+1 }); err != nil {
			res.Violate("merge.setup", "registration: %v; pending %v", err, e.S.Pending())
			return
		}
		var outs []*mOut
		for ci, reqs := range w.Callers {
			mine := make([]*mOut, len(reqs))
			for k, rq := range reqs {
				mine[k] = &mOut{Req: rq}
				outs = append(outs, mine[k])
			}
			e.Task(fmt.Sprintf("caller%d", ci), func() {
				for k, o := range mine {
					if k > 0 {
						for _, ex := range w.Exits {
							if ex.AfterReq == k-1 && h.Plugs[ex.Plugin] != nil {
								h.Plugs[ex.Plugin].Stub.Stop()
								e.S.Settle(fmt.Sprintf("caller%d", ci))
								e.S.Probe("merge.plugin-exit-between-requests")
							}
						}
					}
					rq := o.Req
					pod := &api.PodSandbox{Id: "pod-" + rq.ID, Name: "pod"}
					switch rq.Kind {
					case "create":
						o.Resp, o.Err = h.Call("CreateContainer", pod, buildContainer(rq.ID, pod.Id, rq.Orig), nil)
					case "update":
						o.Resp, o.Err = h.Call("UpdateContainer", pod, buildContainer(rq.ID, pod.Id, nil), buildResources(rq.Orig))
					case "stop":
						o.Resp, o.Err = h.Call("StopContainer", pod, buildContainer(rq.ID, pod.Id, nil), nil)
					}
					o.Done = true
				}
			})
		}
		if err := e.RunUntil(600000, func() bool { return e.TasksDone() }); err != nil {
			res.Violate("merge.liveness", "requests did not complete: %v; pending %v", err, e.S.Pending())
			return
		}
		order := invocationOrder(w.Plugins)
		entries := h.entriesCopy()
		var all []Violation
		sums := []string{}
		gone := map[string]int{} // plugin -> index of the first request it no longer takes part in
		for _, ex := range w.Exits {
			gone[ex.Plugin] = ex.AfterReq + 1
		}
		for oi, o := range outs {
			order := order
			if len(gone) > 0 {
				var rest []string
				for _, p := range order {
					if g, ok := gone[p]; ok && oi >= g {
						continue
					}
					rest = append(rest, p)
				}
				order = rest
			}
			vs, sum := mergeOracle(res, o, order, entries, w.Twins)
			all = append(all, vs...)
			sums = append(sums, sum)
		}
		other := 0
		for _, v := range all {
			if strings.HasPrefix(v.Oracle, w.Focus+".") || strings.HasPrefix(v.Oracle, "merge.") {
				res.Violations = append(res.Violations, v)
			} else {
				other++
			}
		}
		if other > 0 {
			res.Probe(w.Focus + ".violations-of-sibling-properties-seen")
		}
		res.Summary = sums
	})
}

// mergeOracle judges one request. It returns the violations of all five properties (the
// caller keeps those of the property being checked) and a one-line summary.
func mergeOracle(res *Result, o *mOut, order []string, entries []*Entry, twins bool) ([]Violation, string) {
	var vs []Violation
	add := func(oracle, f string, a ...any) {
		vs = append(vs, Violation{Oracle: oracle, Msg: fmt.Sprintf(f, a...)})
	}
	rq := o.Req
	ex := runModel(rq, order)
	focus := ""
	_ = focus
	tag := fmt.Sprintf("%s %s", rq.Kind, rq.ID)
	if ex.Ambiguous != "" {
		res.Skip("ambiguous: " + ex.Ambiguous)
		return nil, tag + " ambiguous"
	}
	for k := range ex.Kinds {
		res.Probe("collision." + k)
	}
	if ex.Dropped > 0 {
		res.Probe("ignore-failure-update-dropped")
	}
	switch {
	case ex.Conflict != "":
		res.Nontrivial = true
		if o.Err == nil {
			add("C01.missed-conflict", "%s: %s, but the request succeeded: %s", tag, ex.Conflict, describeReq(rq, order))
		}
		return vs, tag + " conflict:" + ex.Conflict
	case ex.SelfUpdate != "":
		res.Nontrivial = true
		res.Probe("self-update-during-creation")
		if o.Err == nil {
			add("C05.self-update", "%s: %s, but the request succeeded", tag, ex.SelfUpdate)
		}
		return vs, tag + " self-update"
	}
	if o.Err != nil {
		add("C02.false-conflict", "%s: no two plugins set the same item of the same container, but the request failed: %v; %s", tag, o.Err, describeReq(rq, order))
		if ex.Dropped > 0 {
			// the only clashes of this request are in updates marked ignore-failure
			add("C05.ignore-failure-fails-request", "%s: an update marked ignore-failure clashes with an earlier claim: it must be dropped without failing the request, but the request failed: %v; %s", tag, o.Err, describeReq(rq, order))
		}
		res.Skip("request failed unexpectedly (C02's subject); content oracles not evaluated")
		return vs, tag + " unexpected error"
	}
	nrep := 0
	for _, p := range order {
		if rq.Replies[p] != nil {
			nrep++
		}
	}
	if nrep >= 2 {
		res.Nontrivial = true
	}
	if twins {
		// two instances under one name: their relative order is unspecified, so the views and the
		// generator differential (which depend on it) are not judged
		res.Probe("merge.two-instances-under-one-name")
		if rq.Kind == "create" {
			var adjust *api.ContainerAdjustment
			if r, ok := o.Resp.(*api.CreateContainerResponse); ok {
				adjust = r.GetAdjust()
			}
			sets, anom := extractAdjustSets(adjust)
			var d []string
			diffMap("item", ex.FinalSets, sets, &d)
			d = append(d, anom...)
			if len(d) > 0 {
				add("C01.value", "%s: the combined adjustment does not carry exactly the final owners' values: %s; %s", tag, fmtDiffs(d), describeReq(rq, order))
			}
		}
		return vs, tag + " ok (twins)"
	}
	// C04: what each plugin was shown
	rpc := map[string]string{"create": "CreateContainer", "update": "UpdateContainer", "stop": "StopContainer"}[rq.Kind]
	seen := map[string]*Entry{}
	for _, en := range entries {
		if en.Token == rq.ID && en.RPC == rpc {
			seen[en.Plugin] = en
		}
	}
	if rq.Kind != "stop" {
		for i, p := range order {
			en := seen[p]
			if en == nil {
				add("merge.liveness", "%s: plugin %s was not invoked", tag, p)
				continue
			}
			var d []string
			if rq.Kind == "create" {
				d = ex.Views[p].diff(extractContainer(en.Ctr), false)
				// what no adjustment can touch is the runtime's original
				if want, got := fixedDesc(buildContainer(rq.ID, "pod-"+rq.ID, rq.Orig)), fixedDesc(en.Ctr); want != got {
					d = append(d, fmt.Sprintf("identity, state or labels: want %s, got %s", want, got))
				}
			} else {
				got := newCState()
				extractResources(en.Res, got)
				d = ex.Views[p].diff(got, true)
			}
			if len(d) > 0 {
				add("C04.view", "%s: plugin %s (position %d of %d) was not shown the %s as the earlier plugins left it: %s; %s", tag, p, i+1, len(order),
					map[string]string{"create": "container", "update": "resources"}[rq.Kind], fmtDiffs(d), describeReq(rq, order))
			}
		}
	}
	// C05: collected updates
	var ups []*api.ContainerUpdate
	var adjust *api.ContainerAdjustment
	switch r := o.Resp.(type) {
	case *api.CreateContainerResponse:
		ups, adjust = r.GetUpdate(), r.GetAdjust()
	case *api.UpdateContainerResponse:
		ups = r.GetUpdate()
	case *api.StopContainerResponse:
		ups = r.GetUpdate()
	}
	gotU := map[string]*CState{}
	for i, u := range ups {
		if u == nil {
			if rq.Kind == "update" && i == len(ups)-1 {
				continue // empty placeholder for the container being updated
			}
			add("C05.updates", "%s: nil entry at position %d of the update list", tag, i)
			continue
		}
		if _, dup := gotU[u.ContainerId]; dup {
			add("C05.updates", "%s: more than one entry for target %s in the update list", tag, u.ContainerId)
		}
		c := newCState()
		extractResources(u.GetLinux().GetResources(), c)
		gotU[u.ContainerId] = c
		if rq.Kind == "update" && u.ContainerId == rq.ID && i != len(ups)-1 {
			add("C05.updates", "%s: the entry of the container being updated is at position %d of %d, not last", tag, i+1, len(ups))
		}
	}
	if rq.Kind == "update" && len(ups) > 0 {
		if l := ups[len(ups)-1]; l != nil && l.ContainerId != rq.ID {
			add("C05.updates", "%s: the last entry of the update list is for %s, not for the container being updated", tag, l.ContainerId)
		}
	}
	if rq.Kind == "update" && len(ups) == 0 {
		add("C05.updates", "%s: empty update list (no entry or placeholder for the container being updated)", tag)
	}
	targets := map[string]bool{}
	for t := range ex.Updates {
		targets[t] = true
	}
	for t := range gotU {
		targets[t] = true
	}
	for _, t := range sortedKeys(targets) {
		want, got := ex.Updates[t], gotU[t]
		if want == nil {
			want = newCState()
		}
		if got == nil {
			got = newCState()
		}
		if rq.Kind == "update" && t == rq.ID {
			if ex.OwnChanged {
				want = ex.Own
			} else if got.resourceFields() > 0 {
				// "an empty placeholder if no plugin changed it": tolerate the requested resources being echoed
				if d := ex.Own.diff(got, true); len(d) > 0 {
					add("C05.updates", "%s: no plugin changed the container being updated but its entry carries values that are not the requested ones: %s", tag, fmtDiffs(d))
				}
				continue
			}
		}
		if d := want.diff(got, true); len(d) > 0 {
			add("C05.updates", "%s: entry for target %s does not carry exactly the fields plugins set for it: %s; %s", tag, t, fmtDiffs(d), describeReq(rq, order))
		}
	}
	// C01: every value in the combined adjustment is its final owner's
	if rq.Kind == "create" {
		sets, anom := extractAdjustSets(adjust)
		var d []string
		diffMap("item", ex.FinalSets, sets, &d)
		d = append(d, anom...)
		if len(d) > 0 {
			add("C01.value", "%s: the combined adjustment does not carry exactly the final owners' values: %s; %s", tag, fmtDiffs(d), describeReq(rq, order))
		}
		// C03: combined == sequential through the project's generator
		if d := c03Differential(rq, order, adjust); len(d) > 0 {
			add("C03.combined-vs-sequential", "%s: applying the combined adjustment differs from applying the plugins' adjustments in turn: %s; %s", tag, fmtDiffs(d), describeReq(rq, order))
		}
	}
	return vs, tag + " ok"
}

func describeReq(rq *MReq, order []string) string {
	var sb strings.Builder
	fmt.Fprintf(&sb, "[orig:")
	for _, o := range rq.Orig {
		fmt.Fprintf(&sb, " %s%s", o.Kind, keyStr(o.Key))
	}
	sb.WriteString("]")
	for _, p := range order {
		rp := rq.Replies[p]
		if rp == nil {
			continue
		}
		fmt.Fprintf(&sb, " %s{", p)
		for _, o := range rp.Ops {
			fmt.Fprintf(&sb, " %s:%s%s", o.Act, o.Kind, keyStr(o.Key))
		}
		for _, u := range rp.Updates {
			fmt.Fprintf(&sb, " upd(%s", u.Target)
			if u.Ignore {
				sb.WriteString(",ignore")
			}
			for _, o := range u.Ops {
				fmt.Fprintf(&sb, " %s%s", o.Kind, keyStr(o.Key))
			}
			sb.WriteString(")")
		}
		sb.WriteString(" }")
	}
	s := sb.String()
	if len(s) > 900 {
		s = s[:900] + "..."
	}
	return s
}

func keyStr(k string) string {
	if k == "" {
		return ""
	}
	return "(" + k + ")"
}

// ---- C03 differential through the project's OCI generator ---------------------------------

func specFromContainer(c *api.Container) *rspec.Spec {
	s := &rspec.Spec{Version: "1.0.2", Process: &rspec.Process{Cwd: "/"}, Linux: &rspec.Linux{}, Root: &rspec.Root{Path: "rootfs"}}
	s.Process.Args = append([]string(nil), c.Args...)
	s.Process.Env = append([]string(nil), c.Env...)
	if len(c.Annotations) > 0 {
		s.Annotations = map[string]string{}
		for k, v := range c.Annotations {
			s.Annotations[k] = v
		}
	}
	for _, m := range c.Mounts {
		prop := ""
		s.Mounts = append(s.Mounts, m.ToOCI(&prop))
	}
	for _, l := range c.Rlimits {
		s.Process.Rlimits = append(s.Process.Rlimits, rspec.POSIXRlimit{Type: l.Type, Hard: l.Hard, Soft: l.Soft})
	}
	if h := c.Hooks; h != nil {
		s.Hooks = &rspec.Hooks{}
		for _, x := range h.Prestart {
			s.Hooks.Prestart = append(s.Hooks.Prestart, x.ToOCI())
		}
		for _, x := range h.Poststart {
			s.Hooks.Poststart = append(s.Hooks.Poststart, x.ToOCI())
		}
		for _, x := range h.Poststop {
			s.Hooks.Poststop = append(s.Hooks.Poststop, x.ToOCI())
		}
		for _, x := range h.CreateRuntime {
			s.Hooks.CreateRuntime = append(s.Hooks.CreateRuntime, x.ToOCI())
		}
		for _, x := range h.CreateContainer {
			s.Hooks.CreateContainer = append(s.Hooks.CreateContainer, x.ToOCI())
		}
		for _, x := range h.StartContainer {
			s.Hooks.StartContainer = append(s.Hooks.StartContainer, x.ToOCI())
		}
	}
	if l := c.Linux; l != nil {
		for _, d := range l.Devices {
			s.Linux.Devices = append(s.Linux.Devices, d.ToOCI())
		}
		if l.Resources != nil {
			s.Linux.Resources = l.Resources.ToOCI()
			// classes are resolved by the runtime: recorded as annotations by the resolvers below
		}
		s.Linux.CgroupsPath = l.CgroupsPath
		if l.OomScoreAdj != nil {
			v := int(l.OomScoreAdj.Value)
			s.Process.OOMScoreAdj = &v
		}
	}
	return s
}

type c03Side struct {
	g   *ngen.Generator
	cdi []string
}

func newC03Side(spec *rspec.Spec) *c03Side {
	sd := &c03Side{}
	gg := rgen.NewFromSpec(spec)
	sd.g = ngen.SpecGenerator(&gg,
		ngen.WithBlockIOResolver(func(c string) (*rspec.LinuxBlockIO, error) {
			// the class "cls<N>" resolves to a block I/O weight of N, so the spec itself shows the class
			var n int
			fmt.Sscanf(c, "cls%d", &n)
			w := uint16(n)
			return &rspec.LinuxBlockIO{Weight: &w, WeightDevice: nil}, nil
		}),
		ngen.WithRdtResolver(func(c string) (*rspec.LinuxIntelRdt, error) {
			return &rspec.LinuxIntelRdt{ClosID: c}, nil
		}),
		ngen.WithCDIDeviceInjector(func(s *rspec.Spec, names []string) error {
			sd.cdi = append(sd.cdi, names...)
			return nil
		}))
	return sd
}

func recordClass(sd *c03Side, kind, c string) error {
	if sd.g.Config.Annotations == nil {
		sd.g.Config.Annotations = map[string]string{}
	}
	sd.g.Config.Annotations["verif.resolved."+kind] = c
	return nil
}

// project normalises a spec for comparison (see DESIGN.md, C03: excluded are the device
// cgroup allow list and the order of env, mounts and devices).
func (sd *c03Side) project() map[string]any {
	s := sd.g.Config
	b, _ := json.Marshal(s)
	var m map[string]any
	json.Unmarshal(b, &m)
	if p, ok := m["process"].(map[string]any); ok {
		if env, ok := p["env"].([]any); ok {
			mm := map[string]any{}
			for _, e := range env {
				kv := strings.SplitN(e.(string), "=", 2)
				if _, dup := mm[kv[0]]; dup {
					mm["__duplicate__"+kv[0]] = true
				}
				if len(kv) == 2 {
					mm[kv[0]] = kv[1]
				} else {
					mm[kv[0]] = ""
				}
			}
			p["env"] = mm
		}
	}
	if ms, ok := m["mounts"].([]any); ok {
		mm := map[string]any{}
		var order []string
		for _, x := range ms {
			order = append(order, x.(map[string]any)["destination"].(string))
		}
		// the order of mounts matters to a runtime (parents before children): both sides sort
		m["__mount_order"] = order
		for _, x := range ms {
			d := x.(map[string]any)["destination"].(string)
			if _, dup := mm[d]; dup {
				mm["__duplicate__"+d] = true
			}
			mm[d] = x
		}
		m["mounts"] = mm
	}
	if l, ok := m["linux"].(map[string]any); ok {
		if ds, ok := l["devices"].([]any); ok {
			mm := map[string]any{}
			for _, x := range ds {
				d := x.(map[string]any)["path"].(string)
				if _, dup := mm[d]; dup {
					mm["__duplicate__"+d] = true
				}
				mm[d] = x
			}
			l["devices"] = mm
		}
		if r, ok := l["resources"].(map[string]any); ok {
			delete(r, "devices")
			if hp, ok := r["hugepageLimits"].([]any); ok {
				mm := map[string]any{}
				for _, x := range hp {
					mm[x.(map[string]any)["pageSize"].(string)] = x
				}
				r["hugepageLimits"] = mm
			}
			if len(r) == 0 {
				delete(l, "resources")
			}
		}
	}
	m["__cdi"] = append([]string{}, sd.cdi...)
	return m
}

func flatten(prefix string, v any, out map[string]string) {
	switch x := v.(type) {
	case map[string]any:
		if len(x) == 0 {
			return
		}
		for k, vv := range x {
			flatten(prefix+"/"+k, vv, out)
		}
	case []any:
		if len(x) == 0 {
			return
		}
		b, _ := json.Marshal(x)
		out[prefix] = string(b)
	case []string:
		if len(x) == 0 {
			return
		}
		b, _ := json.Marshal(x)
		out[prefix] = string(b)
	case nil:
	default:
		b, _ := json.Marshal(x)
		out[prefix] = string(b)
	}
}

func c03Differential(rq *MReq, order []string, combined *api.ContainerAdjustment) []string {
	orig := buildContainer(rq.ID, "pod-"+rq.ID, rq.Orig)
	a := newC03Side(specFromContainer(orig))
	if err := a.g.Adjust(combined); err != nil {
		return []string{"applying the combined adjustment failed: " + err.Error()}
	}
	b := newC03Side(specFromContainer(orig))
	for _, p := range order {
		rp := rq.Replies[p]
		if rp == nil {
			continue
		}
		if err := b.g.Adjust(buildAdjust(rp.Ops, true)); err != nil {
			return []string{"applying the adjustment of " + p + " failed: " + err.Error()}
		}
		for _, o := range rp.Ops {
			if o.Kind == "args" && o.Act == "rm" {
				// a bare command-line removal: the earlier plugins' command line goes, the original applies
				b.g.SetProcessArgs(append([]string(nil), orig.Args...))
			}
		}
	}
	fa, fb := map[string]string{}, map[string]string{}
	flatten("", a.project(), fa)
	flatten("", b.project(), fb)
	var d []string
	for _, k := range sortedKeys(fb) {
		if g, ok := fa[k]; !ok {
			d = append(d, fmt.Sprintf("%s: sequential %s, combined: absent", k, clip(fb[k])))
		} else if g != fb[k] {
			d = append(d, fmt.Sprintf("%s: sequential %s, combined %s", k, clip(fb[k]), clip(g)))
		}
	}
	for _, k := range sortedKeys(fa) {
		if _, ok := fb[k]; !ok {
			d = append(d, fmt.Sprintf("%s: sequential: absent, combined %s", k, clip(fa[k])))
		}
	}
	return d
}

func clip(s string) string {
	if len(s) > 120 {
		return s[:120] + "..."
	}
	return s
}

func mergeShrink(wl any) []any {
	w := wl.(*MW)
	var out []any
	if len(w.Exits) > 0 {
		c := jsonClone(w)
		c.Exits = nil
		out = append(out, c)
		return append(out, mergeShrinkRest(w)...)
	}
	return mergeShrinkRest(w)
}

func mergeShrinkRest(w *MW) []any {
	var out []any
	if len(w.Exits) > 0 {
		return nil // structural shrinking would shift the request indices the exits refer to
	}
	// whole callers, whole requests
	for i := range w.Callers {
		if len(w.Callers) > 1 {
			c := jsonClone(w)
			c.Callers = append(c.Callers[:i], c.Callers[i+1:]...)
			out = append(out, c)
		}
		for k := range w.Callers[i] {
			if len(w.Callers[i]) > 1 {
				c := jsonClone(w)
				c.Callers[i] = append(c.Callers[i][:k], c.Callers[i][k+1:]...)
				out = append(out, c)
			}
		}
	}
	// whole plugins
	if len(w.Plugins) > 1 {
		for k := range w.Plugins {
			c := jsonClone(w)
			name := c.Plugins[k].Name
			c.Plugins = append(c.Plugins[:k], c.Plugins[k+1:]...)
			for _, reqs := range c.Callers {
				for _, rq := range reqs {
					delete(rq.Replies, name)
				}
			}
			out = append(out, c)
		}
	}
	// replies, updates, ops, original items
	for i := range w.Callers {
		for k, rq := range w.Callers[i] {
			for _, p := range sortedKeys(rq.Replies) {
				rp := rq.Replies[p]
				c := jsonClone(w)
				delete(c.Callers[i][k].Replies, p)
				out = append(out, c)
				for u := range rp.Updates {
					c := jsonClone(w)
					r := c.Callers[i][k].Replies[p]
					r.Updates = append(r.Updates[:u], r.Updates[u+1:]...)
					out = append(out, c)
				}
				if len(rp.Ops) > 1 {
					c := jsonClone(w)
					c.Callers[i][k].Replies[p].Ops = nil
					out = append(out, c)
				}
			}
			if len(rq.Orig) > 0 {
				c := jsonClone(w)
				c.Callers[i][k].Orig = nil
				out = append(out, c)
			}
		}
	}
	for i := range w.Callers {
		for k, rq := range w.Callers[i] {
			for _, p := range sortedKeys(rq.Replies) {
				rp := rq.Replies[p]
				for x := range rp.Ops {
					c := jsonClone(w)
					r := c.Callers[i][k].Replies[p]
					r.Ops = append(r.Ops[:x], r.Ops[x+1:]...)
					out = append(out, c)
				}
				for u := range rp.Updates {
					for x := range rp.Updates[u].Ops {
						c := jsonClone(w)
						r := c.Callers[i][k].Replies[p]
						r.Updates[u].Ops = append(r.Updates[u].Ops[:x], r.Updates[u].Ops[x+1:]...)
						out = append(out, c)
					}
				}
			}
			for x := range rq.Orig {
				c := jsonClone(w)
				r := c.Callers[i][k]
				r.Orig = append(r.Orig[:x], r.Orig[x+1:]...)
				out = append(out, c)
			}
		}
	}
	return out
}

func init() {
	rules := map[string]string{
		"C01": "2-5 plugins (random distinct indices, random registration order), 1-3 concurrent callers with 1-3 create/update/stop requests each; two thirds of the requests generated with a 0.5 probability that a touch of an item owned by another plugin is a plain set (collision) over every item kind and target; the reference ledger decides which requests must fail",
		"C02": "as C01 but conflict-free by construction: disjoint writers, removal and remove-then-set chains, pure removal followed by a later set, pre-populated originals and update requests (a quarter fully populated)",
		"C03": "conflict-free creation requests over originals rich enough for removals to matter; differential through generate.Generator.Adjust: combined vs plugin-by-plugin",
		"C04": "conflict-free creation and update requests; the container/resources each plugin's handler received vs the model state after the earlier plugins",
		"C05": "creation, update and stop requests with 0-3 updates per plugin over targets t1, t2 and the request's own container, random field subsets, ignore-failure flags, occasional collisions and self-updates during creation",
	}
	for _, id := range []string{"C01", "C02", "C03", "C04", "C05"} {
		id := id
		register(&Property{
			ID:     id,
			Gen:    mergeGen(id),
			New:    func() any { return &MW{} },
			Run:    mergeRun,
			Shrink: mergeShrink,
			Confs: func(tier string) []Conf {
				if tier == "thorough" {
					return []Conf{{Name: "random", Weight: 8}, {Name: "two", Weight: 2}, {Name: "deep", Weight: 2}, {Name: "twins", Weight: 1}}
				}
				return []Conf{{Name: "random", Weight: 8}, {Name: "two", Weight: 2}, {Name: "twins", Weight: 1}}
			},
			Components: h1Components,
			Rule:       rules[id] + "; non-trivial = a request in which the model predicted a conflict/self-update or at least two plugins replied; distinct = distinct event-log hash",
		})
	}
}
