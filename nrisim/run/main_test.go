package run

import "testing"

// TestChild is the entry point of the child processes started by /verif/check.
func TestChild(t *testing.T) { ChildMain(t) }
