package run

import (
	"context"
	"fmt"
	stdnet "net"
	"strconv"
	"strings"
	stdsync "sync"
	"time"

	"nrisim/sim"

	nri "github.com/containerd/nri/pkg/adaptation"
	"github.com/containerd/nri/pkg/api"
	"github.com/containerd/nri/pkg/stub"
	"github.com/containerd/ttrpc"
	"google.golang.org/grpc/codes"
	"google.golang.org/grpc/status"
	"google.golang.org/protobuf/proto"
)

// H1 is the whole-system harness: the real adaptation, real stubs over real mux and
// ttRPC, connected through the simulated transport, driven by harness callers.

// Entry is one handler invocation observed on the plugin side.
type Entry struct {
	Plugin string
	RPC    string // handler name, e.g. "CreateContainer", "StartContainer", "Synchronize"
	Token  string // request identity (container id, or pod id for pod events)
	Step   int    // scheduler step at entry
	Exit   int    // scheduler step at which the handler returned (-1 while inside)
	Pod    *api.PodSandbox
	Ctr    *api.Container
	Res    *api.LinuxResources // UpdateContainer: presented resources
	Pods   []*api.PodSandbox   // Synchronize
	Ctrs   []*api.Container    // Synchronize
	SimAt  time.Duration
}

// Reply is a scripted handler result.
type Reply struct {
	Adjust  *api.ContainerAdjustment
	Updates []*api.ContainerUpdate
	Err     string // non-empty: handler returns this error
	ErrKind string // flavour of the error value: "" plain; "deadline" / "canceled" (the context errors); "closed" (ttrpc.ErrClosed); "status:<n>" (status error with gRPC code n)
	Hang    bool   // handler never returns (until teardown)
	SleepMs int    // the handler takes this much simulated time before it answers
}

// Script decides the reply of plugin p to (rpc, token).
type Script func(plugin, rpc, token string) *Reply

type H1 struct {
	// NoSyncHandler: plugins (by name) to be created without a Synchronize handler
	NoSyncHandler map[string]bool
	// ClientStatus: messages of the error statuses the runtime's ttRPC clients received in replies
	ClientStatus []string
	E            *Env
	S            *sim.Sched
	R            *nri.Adaptation
	L            *sim.Listener

	mu      stdsync.Mutex
	Entries []*Entry
	Plugs   map[string]*Plug
	order   []string
	Script  Script
	ndials  int

	// runtime side
	Pods               []*api.PodSandbox
	Ctrs               []*api.Container
	SyncLog            []SyncEvt
	UpdLog             []*UpdEvt
	UpdScript          func(n int, u []*api.ContainerUpdate) ([]*api.ContainerUpdate, string)
	UpdGate            bool // park UpdateFn at a gate
	InSync             int  // SyncFn calls in progress
	Blocks             int  // sync blocks held by harness tasks (maintained by callers)
	OnSyncEnter        func()
	GateOwnerPerPlugin bool
}

type SyncEvt struct {
	Kind string // "enter", "cb-return", "exit"
	Step int
	N    int // nth SyncFn call
	Pods []string
	Ctrs []string
	Err  string
	Upd  []*api.ContainerUpdate
}

type UpdEvt struct {
	N       int
	Enter   int
	Exit    int
	Updates []*api.ContainerUpdate
}

// Plug is a scripted plugin implementing every handler.
type Plug struct {
	h           *H1
	Name        string
	Idx         string
	Mask        api.EventMask // returned by Configure (0 = everything)
	CfgErr      string
	Conn        *sim.Conn
	Stub        stub.Stub
	StartErr    error
	Started     bool
	Closed      int // OnClose calls
	DialIdx     int // position of the current connection in the listener's accept order
	Redials     int
	SyncUpd     []*api.ContainerUpdate
	OnConfigure func() // called from inside the Configure handler
	cfgSeen     int
}

func NewH1(e *Env, treq, treg time.Duration) *H1 {
	h := &H1{E: e, S: e.S, Plugs: map[string]*Plug{}}
	nri.SetPluginRequestTimeout(treq)
	nri.SetPluginRegistrationTimeout(treg)
	h.L = e.S.Listen()
	// the runtime's ttRPC clients report every error status a plugin's reply carried (what NRI actually
	// received, as opposed to what was sent): the documented interceptor hook, behaviour unchanged
	seen := func(ctx context.Context, req *ttrpc.Request, resp *ttrpc.Response, info *ttrpc.UnaryClientInfo, inv ttrpc.Invoker) error {
		err := inv(ctx, req, resp)
		if err == nil && resp.Status != nil && resp.Status.Code != 0 {
			h.mu.Lock()
			h.ClientStatus = append(h.ClientStatus, resp.Status.Message)
			h.mu.Unlock()
		}
		return err
	}
	r, err := nri.New("simrt", "1.0", h.syncFn, h.updFn, nri.WithDisabledExternalConnections(), nri.WithPluginPath("/nonexistent-verif"), nri.WithPluginConfigPath("/nonexistent-verif"),
		nri.WithTTRPCOptions([]ttrpc.ClientOpts{ttrpc.WithUnaryClientInterceptor(seen)}, nil))
	if err != nil {
		panic(err)
	}
	h.R = r
	if err := r.Start(); err != nil {
		panic(err)
	}
	r.VerifServe(h.L)
	e.OnTeardown(func() {
		r.Stop()
		h.mu.Lock()
		ps := make([]*Plug, 0, len(h.order))
		for _, n := range h.order {
			ps = append(ps, h.Plugs[n])
		}
		h.mu.Unlock()
		for _, p := range ps {
			if p.Stub != nil {
				p.Stub.Stop()
			}
			if p.Conn != nil {
				p.Conn.Close()
			}
		}
	})
	return h
}

// findEntry returns the handler entry of plugin for the request with the given token, if any yet.
func (h *H1) findEntry(plugin, token string) *Entry {
	h.mu.Lock()
	defer h.mu.Unlock()
	for i := len(h.Entries) - 1; i >= 0; i-- {
		if en := h.Entries[i]; en.Plugin == plugin && en.Token == token {
			return en
		}
	}
	return nil
}

func (h *H1) entryExited(en *Entry) bool {
	h.mu.Lock()
	defer h.mu.Unlock()
	return en.Exit > 0
}

// SawClientStatus reports whether a reply carrying an error status with msg in its message reached the
// runtime's ttRPC client.
func (h *H1) SawClientStatus(msg string) bool {
	h.mu.Lock()
	defer h.mu.Unlock()
	for _, m := range h.ClientStatus {
		if strings.Contains(m, msg) {
			return true
		}
	}
	return false
}

func (h *H1) syncFn(ctx context.Context, cb nri.SyncCB) error {
	h.mu.Lock()
	h.InSync++
	n := len(h.SyncLog)
	pods := append([]*api.PodSandbox(nil), h.Pods...)
	ctrs := append([]*api.Container(nil), h.Ctrs...)
	ev := SyncEvt{Kind: "enter", Step: h.S.Steps, N: n}
	for _, p := range pods {
		ev.Pods = append(ev.Pods, p.Id)
	}
	for _, c := range ctrs {
		ev.Ctrs = append(ev.Ctrs, c.Id)
	}
	h.SyncLog = append(h.SyncLog, ev)
	f := h.OnSyncEnter
	h.mu.Unlock()
	if f != nil {
		f()
	}
	upd, err := cb(ctx, pods, ctrs)
	h.mu.Lock()
	e2 := SyncEvt{Kind: "cb-return", Step: h.S.Steps, N: n, Upd: upd}
	if err != nil {
		e2.Err = err.Error()
	}
	h.SyncLog = append(h.SyncLog, e2)
	h.InSync--
	h.mu.Unlock()
	return err
}

func (h *H1) updFn(ctx context.Context, u []*api.ContainerUpdate) ([]*api.ContainerUpdate, error) {
	h.mu.Lock()
	n := len(h.UpdLog)
	ev := &UpdEvt{N: n, Enter: h.S.Steps, Exit: -1, Updates: u}
	h.UpdLog = append(h.UpdLog, ev)
	sc := h.UpdScript
	gate := h.UpdGate
	h.mu.Unlock()
	if gate {
		h.S.ParkOwned(fmt.Sprintf("gate:updfn:%d", n), "runtime-updfn", nil)
	}
	var failed []*api.ContainerUpdate
	var errs string
	if sc != nil {
		failed, errs = sc(n, u)
	}
	h.mu.Lock()
	ev.Exit = h.S.Steps
	h.mu.Unlock()
	if errs != "" {
		return failed, fmt.Errorf("%s", errs)
	}
	return failed, nil
}

// AddPlugin creates a stub-based plugin and dials the runtime; it does not start it.
func (h *H1) AddPlugin(name, idx string, mask api.EventMask) *Plug {
	return h.AddPluginAs(name, name, idx, mask)
}

// AddPluginAs is AddPlugin for a plugin that registers under regName (several plugin instances may
// register under one name and index); name is the harness-internal identity used in the history.
func (h *H1) AddPluginAs(name, regName, idx string, mask api.EventMask) *Plug {
	p := &Plug{h: h, Name: name, Idx: idx, Mask: mask}
	h.mu.Lock()
	p.DialIdx = h.ndials
	h.ndials++
	h.order = append(h.order, name)
	h.Plugs[name] = p
	h.mu.Unlock()
	p.Conn = h.L.Dial("p" + idx + name)
	// the first session uses the connection made here; a restarted stub dials again
	redial := func(string) (stdnet.Conn, error) {
		h.mu.Lock()
		p.DialIdx = h.ndials
		h.ndials++
		p.Redials++
		n := p.Redials
		h.mu.Unlock()
		c := h.L.Dial(fmt.Sprintf("p%s%s.%d", idx, name, n))
		h.mu.Lock()
		p.Conn = c
		h.mu.Unlock()
		return c, nil
	}
	var impl any = p
	if h.NoSyncHandler != nil && h.NoSyncHandler[name] {
		impl = plugNoSync{Plug: p} // the same plugin without a Synchronize handler
	}
	st, err := stub.New(impl, stub.WithPluginName(regName), stub.WithPluginIdx(idx), stub.WithConnection(p.Conn), stub.WithDialer(redial),
		stub.WithOnClose(func() { h.mu.Lock(); p.Closed++; h.mu.Unlock() }))
	if err != nil {
		panic(err)
	}
	p.Stub = st
	return p
}

// plugNoSync is a Plug without a Synchronize handler: the field shadows the promoted method, so the
// stub finds every handler but that one (and answers synchronization itself, without its lock).
type plugNoSync struct {
	*Plug
	Synchronize struct{}
}

// AddCustomPlugin is AddPlugin for an arbitrary plugin implementation (e.g. one without a
// Synchronize handler); nothing of what it receives is recorded by H1.
func (h *H1) AddCustomPlugin(name, idx string, impl any) *Plug {
	p := &Plug{h: h, Name: name, Idx: idx}
	h.mu.Lock()
	p.DialIdx = h.ndials
	h.ndials++
	h.order = append(h.order, name)
	h.Plugs[name] = p
	h.mu.Unlock()
	p.Conn = h.L.Dial("p" + idx + name)
	st, err := stub.New(impl, stub.WithPluginName(name), stub.WithPluginIdx(idx), stub.WithConnection(p.Conn),
		stub.WithOnClose(func() { h.mu.Lock(); p.Closed++; h.mu.Unlock() }))
	if err != nil {
		panic(err)
	}
	p.Stub = st
	return p
}

// StartTask starts the plugin's stub from a harness task.
func (h *H1) StartTask(p *Plug) {
	h.E.Task("start-"+p.Name, func() {
		err := p.Stub.Start(context.Background())
		h.mu.Lock()
		p.StartErr = err
		p.Started = err == nil
		h.mu.Unlock()
	})
}

// Registered reports whether the accept loop has finished processing plugin p's
// connection (activated or rejected): it came back to Accept afterwards.
func (h *H1) RegisteredStep(p *Plug) int { return h.L.AcceptStep(p.DialIdx + 1) }

// runtimeEnd is the runtime-side end of the plugin's connection.
func (h *H1) runtimeEnd(p *Plug) *sim.Conn { return p.Conn.Peer() }

func (h *H1) PluginNames() []string {
	h.mu.Lock()
	defer h.mu.Unlock()
	return append([]string(nil), h.order...)
}

func (h *H1) entriesCopy() []*Entry {
	h.mu.Lock()
	defer h.mu.Unlock()
	return append([]*Entry(nil), h.Entries...)
}

func (p *Plug) enter(rpc, token string, en *Entry) *Reply {
	h := p.h
	en.Plugin, en.RPC, en.Token, en.Exit = p.Name, rpc, token, -1
	h.mu.Lock()
	en.Step = h.S.Steps
	h.Entries = append(h.Entries, en)
	sc := h.Script
	h.mu.Unlock()
	var r *Reply
	if sc != nil {
		r = sc(p.Name, rpc, token)
	}
	if r == nil {
		r = &Reply{}
	}
	if r.Hang {
		<-h.E.Hung()
		return &Reply{}
	}
	if r.SleepMs > 0 {
		time.Sleep(time.Duration(r.SleepMs) * time.Millisecond)
	}
	h.S.ParkOwned("gate:"+p.Name+":"+rpc+":"+token, "plug:"+p.Name, nil)
	h.mu.Lock()
	en.Exit = h.S.Steps
	h.mu.Unlock()
	return r
}

func rerr(r *Reply) error {
	if r.Err == "" {
		return nil
	}
	return ErrValue(r.ErrKind, r.Err)
}

// ErrKinds are the flavours of error value a handler may deliberately return. Whatever the value, it
// is the handler's own error - not a failure of the plugin.
var ErrKinds = []string{"", "", "deadline", "canceled", "closed", "status:8", "status:4", "status:14", "status:1", "wrapped-deadline"}

// ErrValue builds the error value of flavour kind carrying msg where the flavour allows it.
func ErrValue(kind, msg string) error {
	switch {
	case kind == "deadline":
		return context.DeadlineExceeded
	case kind == "wrapped-deadline":
		return fmt.Errorf("%s: %w", msg, context.DeadlineExceeded)
	case kind == "canceled":
		return context.Canceled
	case kind == "closed":
		return ttrpc.ErrClosed
	case strings.HasPrefix(kind, "status:"):
		n, _ := strconv.Atoi(kind[len("status:"):])
		return status.Error(codes.Code(n), msg)
	}
	return fmt.Errorf("%s", msg)
}

// ErrText is a text that the error a caller gets for a handler error of flavour kind must contain.
func ErrText(kind, msg string) string {
	switch kind {
	case "deadline":
		return "deadline exceeded"
	case "canceled":
		return "canceled"
	case "closed":
		return "ttrpc: closed"
	}
	return msg
}

func (p *Plug) Configure(ctx context.Context, config, runtime, version string) (api.EventMask, error) {
	p.h.mu.Lock()
	p.cfgSeen++
	p.h.mu.Unlock()
	if p.OnConfigure != nil {
		p.OnConfigure()
	}
	if p.CfgErr != "" {
		return 0, fmt.Errorf("%s", p.CfgErr)
	}
	return p.Mask, nil
}

func (p *Plug) Synchronize(ctx context.Context, pods []*api.PodSandbox, ctrs []*api.Container) ([]*api.ContainerUpdate, error) {
	r := p.enter("Synchronize", "sync", &Entry{Pods: pods, Ctrs: ctrs})
	if r.Updates != nil {
		return r.Updates, rerr(r)
	}
	return p.SyncUpd, rerr(r)
}

func (p *Plug) Shutdown(ctx context.Context) {}

func (p *Plug) RunPodSandbox(ctx context.Context, pod *api.PodSandbox) error {
	return rerr(p.enter("RunPodSandbox", pod.GetId(), &Entry{Pod: pod}))
}
func (p *Plug) UpdatePodSandbox(ctx context.Context, pod *api.PodSandbox, over, res *api.LinuxResources) error {
	return rerr(p.enter("UpdatePodSandbox", pod.GetId(), &Entry{Pod: pod, Res: res}))
}
func (p *Plug) PostUpdatePodSandbox(ctx context.Context, pod *api.PodSandbox) error {
	return rerr(p.enter("PostUpdatePodSandbox", pod.GetId(), &Entry{Pod: pod}))
}
func (p *Plug) StopPodSandbox(ctx context.Context, pod *api.PodSandbox) error {
	return rerr(p.enter("StopPodSandbox", pod.GetId(), &Entry{Pod: pod}))
}
func (p *Plug) RemovePodSandbox(ctx context.Context, pod *api.PodSandbox) error {
	return rerr(p.enter("RemovePodSandbox", pod.GetId(), &Entry{Pod: pod}))
}
func (p *Plug) CreateContainer(ctx context.Context, pod *api.PodSandbox, c *api.Container) (*api.ContainerAdjustment, []*api.ContainerUpdate, error) {
	r := p.enter("CreateContainer", c.GetId(), &Entry{Pod: pod, Ctr: c})
	return r.Adjust, r.Updates, rerr(r)
}
func (p *Plug) PostCreateContainer(ctx context.Context, pod *api.PodSandbox, c *api.Container) error {
	return rerr(p.enter("PostCreateContainer", c.GetId(), &Entry{Pod: pod, Ctr: c}))
}
func (p *Plug) StartContainer(ctx context.Context, pod *api.PodSandbox, c *api.Container) error {
	return rerr(p.enter("StartContainer", c.GetId(), &Entry{Pod: pod, Ctr: c}))
}
func (p *Plug) PostStartContainer(ctx context.Context, pod *api.PodSandbox, c *api.Container) error {
	return rerr(p.enter("PostStartContainer", c.GetId(), &Entry{Pod: pod, Ctr: c}))
}
func (p *Plug) UpdateContainer(ctx context.Context, pod *api.PodSandbox, c *api.Container, res *api.LinuxResources) ([]*api.ContainerUpdate, error) {
	r := p.enter("UpdateContainer", c.GetId(), &Entry{Pod: pod, Ctr: c, Res: res})
	return r.Updates, rerr(r)
}
func (p *Plug) PostUpdateContainer(ctx context.Context, pod *api.PodSandbox, c *api.Container) error {
	return rerr(p.enter("PostUpdateContainer", c.GetId(), &Entry{Pod: pod, Ctr: c}))
}
func (p *Plug) StopContainer(ctx context.Context, pod *api.PodSandbox, c *api.Container) ([]*api.ContainerUpdate, error) {
	r := p.enter("StopContainer", c.GetId(), &Entry{Pod: pod, Ctr: c})
	return r.Updates, rerr(r)
}
func (p *Plug) RemoveContainer(ctx context.Context, pod *api.PodSandbox, c *api.Container) error {
	return rerr(p.enter("RemoveContainer", c.GetId(), &Entry{Pod: pod, Ctr: c}))
}

// EventNames in protocol order (bit i-1 of a subscription mask is event i).
var EventNames = []string{
	"RunPodSandbox", "StopPodSandbox", "RemovePodSandbox",
	"CreateContainer", "PostCreateContainer", "StartContainer", "PostStartContainer",
	"UpdateContainer", "PostUpdateContainer", "StopContainer", "RemoveContainer",
	"UpdatePodSandbox", "PostUpdatePodSandbox",
}

// EventBit returns the subscription bit of the named event (looked up through the
// protocol's enum names, not copied constants).
func EventBit(name string) api.EventMask {
	var key string
	switch name {
	case "RunPodSandbox":
		key = "RUN_POD_SANDBOX"
	case "StopPodSandbox":
		key = "STOP_POD_SANDBOX"
	case "RemovePodSandbox":
		key = "REMOVE_POD_SANDBOX"
	case "CreateContainer":
		key = "CREATE_CONTAINER"
	case "PostCreateContainer":
		key = "POST_CREATE_CONTAINER"
	case "StartContainer":
		key = "START_CONTAINER"
	case "PostStartContainer":
		key = "POST_START_CONTAINER"
	case "UpdateContainer":
		key = "UPDATE_CONTAINER"
	case "PostUpdateContainer":
		key = "POST_UPDATE_CONTAINER"
	case "StopContainer":
		key = "STOP_CONTAINER"
	case "RemoveContainer":
		key = "REMOVE_CONTAINER"
	case "UpdatePodSandbox":
		key = "UPDATE_POD_SANDBOX"
	case "PostUpdatePodSandbox":
		key = "POST_UPDATE_POD_SANDBOX"
	}
	v, ok := api.Event_value[key]
	if !ok {
		panic("unknown event " + name)
	}
	return api.EventMask(1) << (uint(v) - 1)
}

// Call issues the lifecycle call named ev for the given pod/container on the adaptation.
// It returns the response (for Create/Update/Stop) and the error.
func (h *H1) Call(ev string, pod *api.PodSandbox, ctr *api.Container, res *api.LinuxResources) (any, error) {
	ctx := context.Background()
	sce := func() *api.StateChangeEvent {
		return &api.StateChangeEvent{Pod: proto.Clone(pod).(*api.PodSandbox), Container: cloneCtr(ctr)}
	}
	switch ev {
	case "RunPodSandbox":
		return nil, h.R.RunPodSandbox(ctx, sce())
	case "StopPodSandbox":
		return nil, h.R.StopPodSandbox(ctx, sce())
	case "RemovePodSandbox":
		return nil, h.R.RemovePodSandbox(ctx, sce())
	case "PostUpdatePodSandbox":
		return nil, h.R.PostUpdatePodSandbox(ctx, sce())
	case "UpdatePodSandbox":
		return h.R.UpdatePodSandbox(ctx, &api.UpdatePodSandboxRequest{Pod: proto.Clone(pod).(*api.PodSandbox), LinuxResources: res})
	case "CreateContainer":
		return h.R.CreateContainer(ctx, &api.CreateContainerRequest{Pod: proto.Clone(pod).(*api.PodSandbox), Container: cloneCtr(ctr)})
	case "PostCreateContainer":
		return nil, h.R.PostCreateContainer(ctx, sce())
	case "StartContainer":
		return nil, h.R.StartContainer(ctx, sce())
	case "PostStartContainer":
		return nil, h.R.PostStartContainer(ctx, sce())
	case "UpdateContainer":
		var r *api.LinuxResources
		if res != nil {
			r = proto.Clone(res).(*api.LinuxResources)
		}
		return h.R.UpdateContainer(ctx, &api.UpdateContainerRequest{Pod: proto.Clone(pod).(*api.PodSandbox), Container: cloneCtr(ctr), LinuxResources: r})
	case "PostUpdateContainer":
		return nil, h.R.PostUpdateContainer(ctx, sce())
	case "StopContainer":
		return h.R.StopContainer(ctx, &api.StopContainerRequest{Pod: proto.Clone(pod).(*api.PodSandbox), Container: cloneCtr(ctr)})
	case "RemoveContainer":
		return nil, h.R.RemoveContainer(ctx, sce())
	}
	panic("unknown call " + ev)
}

func cloneCtr(c *api.Container) *api.Container {
	if c == nil {
		return nil
	}
	return proto.Clone(c).(*api.Container)
}

// IsPodEvent reports whether the event's request token is the pod id.
func IsPodEvent(ev string) bool {
	switch ev {
	case "RunPodSandbox", "StopPodSandbox", "RemovePodSandbox", "UpdatePodSandbox", "PostUpdatePodSandbox":
		return true
	}
	return false
}
