package run

import (
	"context"
	"fmt"
	"math/rand"
	stdnet "net"
	"strings"
	stdsync "sync"
	"testing"
	"time"

	"github.com/containerd/nri/pkg/api"
	"github.com/containerd/nri/pkg/stub"
)

// C16 - starting, stopping and restarting the stub terminates and leaves it usable.

type C16Session struct {
	Kind   string `json:"kind"`              // healthy | unreachable | refuse | silent-register | drop-after-register | cut
	CutDir int    `json:"cut_dir,omitempty"` // cut: 0 = runtime->plugin, 1 = plugin->runtime
	CutOff int    `json:"cut_off,omitempty"`
}

type C16Op struct {
	Op string `json:"op"` // start | stop | wait | lose | request | settle
}

type C16W struct {
	Sessions []C16Session `json:"sessions"` // behaviour of the k-th dialled connection; beyond the list: healthy
	Ops      []C16Op      `json:"ops"`
	// Side: Stop / Wait calls issued by a second task concurrently with the main sequence (all of
	// them before the final healthy session).
	Side []C16Op `json:"side,omitempty"`
	// SlowConfigure: a Configure handler whose connection is dropped while it runs only finishes once
	// the next connection has been dialled (a plugin that takes long to configure itself)
	SlowConfigure bool `json:"slow_configure,omitempty"`
	Grid          bool `json:"grid,omitempty"`
}

const c16GridOffsets = 330

func c16Gen(rng *rand.Rand, conf string, idx int) any {
	if conf == "grid" {
		w := &C16W{Grid: true}
		w.Sessions = []C16Session{{Kind: "cut", CutDir: idx / c16GridOffsets % 2, CutOff: idx % c16GridOffsets}}
		w.Ops = opsOf("start", "settle", "request", "settle", "stop", "wait", "start", "settle", "wait-alive", "request", "settle", "request", "stop", "wait")
		return w
	}
	w := &C16W{}
	n := 1 + rng.Intn(3)
	for i := 0; i < n; i++ {
		k := pick(rng, []string{"healthy", "healthy", "unreachable", "refuse", "silent-register", "drop-after-register", "cut", "drop-during-configure", "drop-during-configure"})
		s := C16Session{Kind: k}
		if k == "cut" {
			s.CutDir, s.CutOff = rng.Intn(2), rng.Intn(c16GridOffsets)
		}
		w.Sessions = append(w.Sessions, s)
		if rng.Intn(4) == 0 {
			w.Ops = append(w.Ops, C16Op{"run"}) // Run() in a task of its own: it returns when the session has ended
		} else {
			w.Ops = append(w.Ops, C16Op{"start"})
		}
		if rng.Intn(3) == 0 {
			w.Ops = append(w.Ops, C16Op{"settle"})
		}
		for k, m := 0, rng.Intn(3); k < m; k++ {
			w.Ops = append(w.Ops, C16Op{pick(rng, []string{"request", "settle", "wait-if-stopped", "request", "wait-alive"})})
		}
		mustFail := k == "unreachable" || k == "refuse" || k == "silent-register" || k == "drop-after-register"
		if mustFail && rng.Intn(3) == 0 {
			// a Start that failed needs no Stop: the next Start follows at once
			continue
		}
		switch rng.Intn(3) {
		case 0:
			w.Ops = append(w.Ops, C16Op{"stop"})
		case 1:
			if rng.Intn(3) == 0 {
				// the runtime dies while the plugin is writing a reply to it: a partial write on the plugin's side
				w.Ops = append(w.Ops, C16Op{"lose-midwrite"}, C16Op{"settle"})
			} else if rng.Intn(3) == 0 {
				// no pause: the plugin waits for the end of the lost session and starts again at once
				w.Ops = append(w.Ops, C16Op{"lose"}, C16Op{"wait"})
				continue
			} else {
				w.Ops = append(w.Ops, C16Op{"lose"}, C16Op{"settle"})
			}
		default:
			w.Ops = append(w.Ops, C16Op{"stop"}, C16Op{"stop"})
		}
		if rng.Intn(2) == 0 {
			w.Ops = append(w.Ops, C16Op{"wait"})
		}
	}
	for _, s := range w.Sessions {
		if s.Kind == "drop-during-configure" && rng.Intn(2) == 0 {
			w.SlowConfigure = true
		}
	}
	if rng.Intn(3) == 0 {
		for k, m := 0, 1+rng.Intn(3); k < m; k++ {
			w.Side = append(w.Side, C16Op{pick(rng, []string{"stop", "wait", "stop"})})
		}
	}
	// finally: a healthy session must work
	w.Ops = append(w.Ops, C16Op{"join"})
	w.Ops = append(w.Ops, opsOf("start", "settle", "wait-alive", "request", "settle", "request", "stop", "wait")...)
	return w
}

func opsOf(s ...string) []C16Op {
	var o []C16Op
	for _, x := range s {
		o = append(o, C16Op{x})
	}
	return o
}

type c16Plugin struct {
	gate    func(name string) // scheduler gate: handlers take a scheduler-chosen while
	mu      stdsync.Mutex
	cfg     int
	synced  int
	markers map[string]int
}

func (p *c16Plugin) Configure(ctx context.Context, config, runtime, version string) (api.EventMask, error) {
	p.mu.Lock()
	p.cfg++
	n := p.cfg
	p.mu.Unlock()
	if p.gate != nil {
		p.gate(fmt.Sprintf("Configure:%d", n))
	}
	return 0, nil
}
func (p *c16Plugin) cfgCount() int { p.mu.Lock(); defer p.mu.Unlock(); return p.cfg }

func (p *c16Plugin) Synchronize(ctx context.Context, pods []*api.PodSandbox, ctrs []*api.Container) ([]*api.ContainerUpdate, error) {
	p.mu.Lock()
	p.synced++
	p.mu.Unlock()
	return nil, nil
}
func (p *c16Plugin) StartContainer(ctx context.Context, pod *api.PodSandbox, c *api.Container) error {
	p.mu.Lock()
	p.markers[c.GetId()]++
	p.mu.Unlock()
	return nil
}

type c16OpRes struct {
	Op       string
	Done     bool
	Err      error
	Session  int // number of dials before the op
	CfgAfter int
	Elapsed  time.Duration
}

type c16Phases struct{ regReplyEnd, cfgReqEnd, cfgReplyEnd, regReqEnd, total0, total1 int }

func c16Run(t *testing.T, wl any, sc SchedCfg) *Result {
	w := wl.(*C16W)
	var ph *c16Phases
	if w.Grid || true {
		// healthy base handshake under a deterministic schedule: where does each phase end in the byte streams?
		p := &c16Phases{}
		hw := &C16W{Ops: opsOf("start", "settle", "stop", "wait")}
		r0 := c16Exec(t, hw, SchedCfg{Seed: sc.Seed, Strategy: "drain"}, nil, p)
		if len(r0.Violations) > 0 {
			r0.Violations = append(r0.Violations, Violation{Oracle: "C16.base-run", Msg: "the healthy base run reported the above"})
			return r0
		}
		ph = p
	}
	if w.Grid {
		sc = SchedCfg{Seed: sc.Seed, Strategy: "drain", Replay: sc.Replay}
	}
	return c16Exec(t, w, sc, ph, nil)
}

// classify names the point of the handshake at which a cut takes effect, from the
// healthy transcript (only meaningful when the schedule up to the cut is the healthy one;
// used for reporting and for matching known findings, never for the verdict itself).
func (ph *c16Phases) classify(dir, off int) string {
	if ph == nil {
		return "unknown"
	}
	if dir == 0 {
		switch {
		case off < ph.regReplyEnd:
			return "runtime->plugin stream ends before the complete RegisterPlugin reply"
		case off < ph.cfgReqEnd:
			return "runtime->plugin stream ends after the complete RegisterPlugin reply and before the complete Configure request"
		case off < ph.total0:
			return "runtime->plugin stream ends after the complete Configure request"
		}
		return "runtime->plugin stream is not cut during the handshake"
	}
	switch {
	case off < ph.regReqEnd:
		return "plugin->runtime stream ends before the complete RegisterPlugin request"
	case off < ph.cfgReplyEnd:
		return "plugin->runtime stream ends after the complete RegisterPlugin request and before the complete Configure reply"
	case off < ph.total1:
		return "plugin->runtime stream ends after the complete Configure reply"
	}
	return "plugin->runtime stream is not cut during the handshake"
}

func c16Exec(t *testing.T, w *C16W, sc SchedCfg, ph *c16Phases, rec *c16Phases) *Result {
	return Bubble(t, sc, func(e *Env) {
		res := e.Res
		e.S.IdleLimit = 900 // 9 s of simulated time: beyond the stub's 5 s registration timeout
		if w.Grid || rec != nil {
			e.S.NoChunk = true
		}
		h := NewH3(e)
		h.Next = func(n int) string {
			if n < len(w.Sessions) {
				k := w.Sessions[n].Kind
				if k == "cut" {
					return "healthy"
				}
				return k
			}
			return "healthy"
		}
		plug := &c16Plugin{markers: map[string]int{}}
		h.ConfigureEntered = plug.cfgCount
		plug.gate = func(name string) {
			if w.SlowConfigure && strings.HasPrefix(name, "Configure:") {
				n := h.Dials - 1
				if n >= 0 && n < len(w.Sessions) && w.Sessions[n].Kind == "drop-during-configure" {
					e.S.Probe("C16.configure-handler-outlives-its-session")
					e.S.ParkOwned("gate:p16:slow-"+name, "plug:p16", func() bool {
						select {
						case <-e.Hung():
							return true
						default:
						}
						return h.Dials-1 > n
					})
					return
				}
			}
			e.S.ParkOwned("gate:p16:"+name, "plug:p16", nil)
		}
		closes := 0
		var cmu stdsync.Mutex
		dial := func(p string) (c stdnet.Conn, err error) {
			c, err = h.Dialer(p)
			if err == nil {
				n := h.Dials - 1
				if n < len(w.Sessions) && w.Sessions[n].Kind == "cut" {
					s := w.Sessions[n]
					end := h.Ends[len(h.Ends)-1]
					if s.CutDir == 0 {
						end.Conn.CutWrite(s.CutOff, false)
					} else {
						end.Conn.Peer().CutWrite(s.CutOff, false)
					}
					e.S.Probe("C16.fault.cut")
				}
			}
			return
		}
		st, err := stub.New(plug, stub.WithPluginName("p16"), stub.WithPluginIdx("16"), stub.WithDialer(dial),
			stub.WithOnClose(func() { cmu.Lock(); closes++; cmu.Unlock() }))
		if err != nil {
			panic(err)
		}
		e.OnTeardown(func() { st.Stop() })
		results := make([]*c16OpRes, len(w.Ops))
		var runs, waits []*c16OpRes
		started := false // our belief: the last Start returned nil and no stop/loss since
		startedSessions := 0
		maybeSessions := 0 // sessions started through Run(): established or not cannot be told apart
		reqN := 0
		curEnd := func() *RTEnd {
			h.mu.Lock()
			defer h.mu.Unlock()
			if len(h.Ends) == 0 {
				return nil
			}
			return h.Ends[len(h.Ends)-1]
		}
		sideRes := make([]*c16OpRes, len(w.Side))
		sideDone := len(w.Side) == 0
		if len(w.Side) > 0 {
			e.Task("side", func() {
				for i, op := range w.Side {
					r := &c16OpRes{Op: op.Op}
					sideRes[i] = r
					switch op.Op {
					case "stop":
						st.Stop()
					case "wait":
						st.Wait()
					}
					r.Done = true
				}
				sideDone = true
			})
			e.S.Probe("C16.concurrent-stop-or-wait")
		}
		e.Task("caller", func() {
			for i, op := range w.Ops {
				r := &c16OpRes{Op: op.Op, Session: h.Dials}
				results[i] = r
				t0 := time.Now()
				switch op.Op {
				case "start":
					r.Err = st.Start(context.Background())
					plug.mu.Lock()
					r.CfgAfter = plug.cfg
					plug.mu.Unlock()
					if r.Err == nil {
						started = true
						startedSessions++
					}
				case "run":
					// Run = Start + wait for the end of the session; issued from a task of its own, the
					// caller continues once Run has either failed or got the stub started
					rr := &c16OpRes{Op: "run-returns"}
					runs = append(runs, rr)
					cfg0 := plug.cfgCount()
					e.Task(fmt.Sprintf("run-%d", i), func() {
						rr.Err = st.Run(context.Background())
						rr.Done = true
					})
					e.S.ParkOwned(fmt.Sprintf("run-progress:%d", i), "caller", func() bool { return rr.Done || plug.cfgCount() > cfg0 })
					e.S.Settle("caller")
					r.CfgAfter = plug.cfgCount()
					if r.CfgAfter > cfg0 {
						// the plugin got configured: the Start inside Run got (at least) that far; whether it
						// returned nil cannot be observed from outside (Run only returns when the session ends,
						// with whatever the server loop returned), so the session counts as "maybe established"
						started = !rr.Done
						maybeSessions++
						r.Err = nil
					} else {
						r.Err = rr.Err
						if rr.Done && rr.Err == nil {
							r.Err = fmt.Errorf("Run returned nil although the plugin was never configured")
						}
					}
				case "stop":
					st.Stop()
					started = false
				case "wait", "wait-if-stopped":
					if op.Op == "wait" || !started {
						st.Wait()
					}
				case "wait-alive":
					// Wait() issued while the session is believed alive: it must block until the session ends
					if started && len(w.Side) == 0 {
						wa := &c16OpRes{Op: "wait-alive"}
						waits = append(waits, wa)
						e.Task(fmt.Sprintf("wait-alive-%d", i), func() {
							st.Wait()
							wa.Done = true
						})
						e.S.Settle("caller")
						if wa.Done && started {
							if end := curEnd(); end != nil && !end.IsDown() {
								r.Err = fmt.Errorf("Wait() returned although the stub is started and its session is alive")
							}
						}
					}
				case "lose":
					if end := curEnd(); end != nil {
						end.Close()
						e.S.Probe("C16.fault.lose")
					}
					started = false
				case "lose-midwrite":
					if end := curEnd(); end != nil && !end.IsDown() {
						pc := end.Conn.Peer() // the plugin's end of the connection
						pc.FailWriteAt(pc.WrittenBytes() + 3 + 9*(i%2))
						reqN++
						id := fmt.Sprintf("m%d", reqN)
						// the reply to this request is the write that fails half-way; whatever the call returns
						end.PC.StateChange(context.Background(), &api.StateChangeEvent{Event: api.Event_START_CONTAINER,
							Pod: &api.PodSandbox{Id: "pod"}, Container: &api.Container{Id: id, PodSandboxId: "pod"}})
						e.S.Probe("C16.fault.lose-during-a-write-of-the-plugin")
						end.Close()
					}
					started = false
				case "join":
					// the concurrent Stop/Wait calls must all have returned before the final session
					e.S.ParkOwned("join:side", "caller", func() bool { return sideDone })
					st.Stop() // whatever the side task left behind
					e.S.Settle("caller")
					started = false
				case "settle":
					e.S.Settle("caller")
				case "request":
					end := curEnd()
					if end == nil {
						break
					}
					reqN++
					id := fmt.Sprintf("m%d", reqN)
					_, r.Err = end.PC.StateChange(context.Background(), &api.StateChangeEvent{Event: api.Event_START_CONTAINER,
						Pod: &api.PodSandbox{Id: "pod"}, Container: &api.Container{Id: id, PodSandboxId: "pod"}})
					plug.mu.Lock()
					got := plug.markers[id]
					plug.mu.Unlock()
					if r.Err == nil && got != 1 {
						r.Err = fmt.Errorf("request %s succeeded but the handler ran %d times", id, got)
					}
				}
				r.Elapsed = time.Since(t0)
				r.Done = true
			}
			// let asynchronous close notifications run before the verdict
			e.S.Settle("caller")
		})
		rerr := e.RunUntil(800000, func() bool { return e.TasksDone() })
		if rec != nil {
			if end := curEnd(); end != nil {
				rec.regReplyEnd = end.HandshakeAt["register-reply-sent"][0]
				rec.regReqEnd = end.HandshakeAt["register-request-received"][1]
				rec.cfgReqEnd = end.HandshakeAt["configure-reply-received"][0]
				rec.cfgReplyEnd = end.HandshakeAt["configure-reply-received"][1]
				rec.total0 = end.HandshakeAt["synchronize-reply-received"][0]
				rec.total1 = end.HandshakeAt["synchronize-reply-received"][1]
			}
		}
		// ---- oracles
		sessKind := func(n int) (string, string) {
			if n < 0 {
				return "none", "no earlier session"
			}
			if n < len(w.Sessions) {
				s := w.Sessions[n]
				switch s.Kind {
				case "cut":
					return "cut", ph.classify(s.CutDir, s.CutOff)
				case "drop-after-register":
					return s.Kind, "runtime->plugin stream ends after the complete RegisterPlugin reply and before the complete Configure request"
				case "drop-during-configure":
					return s.Kind, "the runtime end closes the connection while the plugin's Configure handler is running"
				}
				return s.Kind, s.Kind
			}
			return "healthy", "healthy"
		}
		for i, r := range sideRes {
			if r == nil || !r.Done {
				res.Violate("C16."+w.Side[i].Op+"-returns", "%s issued by a second task concurrently with %v did not return (%v)", w.Side[i].Op, opNames(w.Ops), rerr)
				return
			}
		}
		for _, wa := range waits {
			if !wa.Done {
				res.Violate("C16.wait-returns", "a Wait() call issued while the session was alive had not returned after the session was stopped or lost; ops %v", opNames(w.Ops))
				return
			}
		}
		for i, r := range results {
			if r != nil && r.Op == "wait-alive" && r.Err != nil {
				res.Violate("C16.wait-blocks-while-alive", "operation %d of %v: %v (close notifications so far: %d)", i+1, opNames(w.Ops), r.Err, closes)
			}
		}
		for _, rr := range runs {
			if !rr.Done {
				res.Violate("C16.run-returns", "a Run() call had not returned although its session was stopped or lost and everything else had drained; ops %v", opNames(w.Ops))
				return
			}
		}
		lastStart := -1
		for i, r := range results {
			if r == nil {
				break
			}
			if r.Op == "start" || r.Op == "run" {
				lastStart = i
			}
			if !r.Done {
				kind, label := sessKind(r.Session)
				_ = kind
				what := ""
				if r.Op == "start" || r.Op == "request" {
					what = fmt.Sprintf(" [session %d: %s]", r.Session, label)
				} else if i > 0 {
					// stop / wait hang: say what the session before looked like
					_, l2 := sessKind(r.Session - 1)
					what = fmt.Sprintf(" [after session %d: %s]", r.Session-1, l2)
				}
				res.Violate("C16."+strings.TrimSuffix(r.Op, "-if-stopped")+"-returns", "%s (operation %d of %v) did not return within %v of simulated time after everything else had drained (%v)%s",
					r.Op, i+1, opNames(w.Ops), time.Duration(e.S.Stats.SimTime), rerr, what)
				return
			}
		}
		for i, r := range results {
			if r == nil || !r.Done {
				continue
			}
			kind, label := sessKind(r.Session)
			switch r.Op {
			case "start", "run":
				prev := 0
				for j := i - 1; j >= 0; j-- {
					if results[j].Op == "start" || results[j].Op == "run" {
						prev = results[j].CfgAfter
						break
					}
				}
				if r.Err == nil && r.CfgAfter == prev {
					res.Violate("C16.start-nil-means-configured", "Start (operation %d) returned nil although the plugin was never configured in that session [session %d: %s]", i+1, r.Session, label)
				}
				dialled := true
				if i+1 < len(results) && results[i+1] != nil && results[i+1].Session == r.Session {
					dialled = false // no new connection was dialled by this Start
				}
				if !dialled {
					res.Violate("C16.restart-fresh-connection", "Start (operation %d of %v) did not dial a fresh connection (dials so far: %d); it returned %v", i+1, opNames(w.Ops), r.Session, r.Err)
				} else if kind == "healthy" && r.Err != nil {
					res.Violate("C16.restart-works", "Start (operation %d of %v) on a fresh connection to a healthy runtime end failed: %v [previous session %d: %s]", i+1, opNames(w.Ops), r.Err, r.Session-1, second(sessKind(r.Session-1)))
				}
				// (a connection dropped during the Configure handler: the handler may still finish first)
				if kind != "healthy" && kind != "cut" && kind != "drop-during-configure" && r.Err == nil {
					res.Violate("C16.start-error", "Start (operation %d) returned nil against a runtime end that is %s", i+1, kind)
				}
			case "request":
				// a request is scored only if the session is believed healthy and started: the final session
				if i > lastStart && kind == "healthy" && results[lastStart].Err == nil && r.Err != nil {
					res.Violate("C16.session-usable", "after %v the restarted stub does not work: request failed: %v (close notifications so far: %d)", opNames(w.Ops[:i]), r.Err, closes)
				}
				// the same for an earlier session: started by Start on a healthy runtime end, not stopped or
				// lost since, nobody else calling Stop: a request must get through (a late notification of
				// an earlier, failed or ended, session must not have torn it down)
				// (a request's Session is the number of connections dialled so far: its session is the one before)
				if k2, _ := sessKind(r.Session - 1); i < lastStart && k2 == "healthy" && len(w.Side) == 0 && r.Err != nil {
					ok := false
					for j := i - 1; j >= 0; j-- {
						op := w.Ops[j].Op
						if op == "stop" || op == "lose" || op == "lose-midwrite" || op == "run" || op == "join" {
							break
						}
						if op == "start" {
							ok = results[j] != nil && results[j].Done && results[j].Err == nil && results[j].Session == r.Session-1
							break
						}
					}
					if ok {
						res.Violate("C16.session-usable", "after %v the stub's session on a healthy runtime end does not work: request failed: %v (close notifications so far: %d)", opNames(w.Ops[:i]), r.Err, closes)
					}
				}
			}
		}
		// close notifications: once per established session, 0 or 1 for the others
		never := h.Dials - startedSessions
		_ = maybeSessions
		if closes < startedSessions || closes > startedSessions+never {
			res.Violate("C16.onclose-count", "%d session(s) were established and ended, %d more connection(s) never got that far, but the close notification fired %d times; ops %v", startedSessions, never, closes, opNames(w.Ops))
		}
		for _, s := range w.Sessions {
			if s.Kind != "healthy" {
				res.Nontrivial = true
			}
		}
		if len(w.Sessions) > 1 {
			res.Nontrivial = true
		}
		var sum []string
		for _, r := range results {
			if r != nil {
				sum = append(sum, fmt.Sprintf("%s:%v", r.Op, r.Err))
			}
		}
		res.Summary = map[string]any{"ops": sum, "dials": h.Dials, "close_notifications": closes}
	})
}

func second(a, b string) string { return b }

func opNames(ops []C16Op) []string {
	var s []string
	for _, o := range ops {
		s = append(s, o.Op)
	}
	return s
}

func c16Shrink(wl any) []any {
	w := wl.(*C16W)
	if w.Grid {
		return nil
	}
	var out []any
	for i := range w.Ops {
		c := jsonClone(w)
		c.Ops = append(c.Ops[:i], c.Ops[i+1:]...)
		out = append(out, c)
	}
	for i := range w.Sessions {
		if w.Sessions[i].Kind != "healthy" {
			c := jsonClone(w)
			c.Sessions[i] = C16Session{Kind: "healthy"}
			out = append(out, c)
		}
	}
	for i := range w.Side {
		c := jsonClone(w)
		c.Side = append(c.Side[:i], c.Side[i+1:]...)
		out = append(out, c)
	}
	return out
}

func init() {
	register(&Property{
		ID: "C16", Gen: c16Gen, New: func() any { return &C16W{} }, Run: c16Run, Shrink: c16Shrink,
		Confs: func(tier string) []Conf {
			return []Conf{{Name: "grid", Grid: 2 * c16GridOffsets}, {Name: "random", Weight: 1}}
		},
		Strategies: []string{"uniform", "pct", "starve", "starve", "lag"},
		Components: h3Components,
		Rule: "grid: the runtime end's connection cut after every byte offset 0..329 of the handshake transcript in either direction, followed by stop, wait, a restart on a fresh healthy connection and two marker requests; " +
			"random: 1-3 sessions from {healthy, unreachable, refusing registration, never answering registration, dropping after the registration reply, cut at a random offset} with random stop / double stop / connection loss / wait / request sequences by the caller, then a final healthy session that must work; the stub's close notification is a scheduler-controlled event; non-trivial = some session was not healthy or there was more than one; distinct = distinct event-log hash",
	})
}
