package run

import (
	"fmt"
	"math/rand"
	"testing"
	"time"

	"github.com/containerd/nri/pkg/api"
)

// C08 - a registering plugin learns of each container exactly once; sync blocks hold it.

type C08W struct {
	Early    int   `json:"early"`               // plugins registered before any creation
	Late     int   `json:"late"`                // plugins registering while creations run
	Creators []int `json:"creators"`            // containers created by each runtime goroutine
	Pre      int   `json:"pre"`                 // containers already in the store
	FailSync []int `json:"fail_sync,omitempty"` // late plugins (by position) whose Synchronize handler fails: their registration must fail cleanly
	// Bystanders: runtime goroutines relaying that many other lifecycle events each (pod and container
	// state changes of unrelated objects), without a sync block, while plugins register and containers are created
	Bystanders []int `json:"bystanders,omitempty"`
	// TreqMs > 0: finite request timeout; the two early plugins' creation handlers take SlowMs each (less
	// than the timeout each, more together), so that a sync block is held for longer than one request
	// timeout while plugins wait to be synchronized - which must not count against them
	TreqMs int `json:"treq_ms,omitempty"`
	SlowMs int `json:"slow_ms,omitempty"`
}

func c08Gen(rng *rand.Rand, conf string, idx int) any {
	w := &C08W{Early: rng.Intn(2), Late: 1 + rng.Intn(4), Pre: rng.Intn(3)}
	for k, n := 0, 1+rng.Intn(3*deep(conf)); k < n; k++ {
		w.Creators = append(w.Creators, 1+rng.Intn(4*deep(conf)))
	}
	if rng.Intn(5) == 0 {
		w.Early, w.TreqMs = 2, pick(rng, []int{400, 500})
		w.SlowMs = w.TreqMs * 6 / 10
		w.FailSync = nil
		// (kept short: the stub's own registration timeout of 5 s must not be reached while the
		// registrations queue up behind the slow creations)
		w.Late = 1 + rng.Intn(2)
		w.Creators = []int{1 + rng.Intn(2)}
		if rng.Intn(2) == 0 {
			w.Creators = append(w.Creators, 1)
		}
		return w
	}
	if rng.Intn(3) == 0 {
		for k, n := 0, 1+rng.Intn(2); k < n; k++ {
			w.Bystanders = append(w.Bystanders, 1+rng.Intn(5*deep(conf)))
		}
	}
	if rng.Intn(3) == 0 {
		for k := 0; k < w.Late; k++ {
			if rng.Intn(3) == 0 {
				w.FailSync = append(w.FailSync, k)
			}
		}
	}
	return w
}

func c08Run(t *testing.T, wl any, sc SchedCfg) *Result {
	w := wl.(*C08W)
	return Bubble(t, sc, func(e *Env) {
		res := e.Res
		treq := hugeTimeout
		if w.TreqMs > 0 {
			treq = time.Duration(w.TreqMs) * time.Millisecond
			res.Probe("C08.block-held-longer-than-the-request-timeout")
		}
		h := NewH1(e, treq, hugeTimeout)
		pod := &api.PodSandbox{Id: "pod0", Name: "pod0"}
		h.Pods = []*api.PodSandbox{pod}
		for i := 0; i < w.Pre; i++ {
			h.Ctrs = append(h.Ctrs, &api.Container{Id: fmt.Sprintf("pre%d", i), PodSandboxId: pod.Id})
		}
		// invariant monitors (harness code): no SyncFn while a block is held, and vice versa
		blocks := 0
		h.OnSyncEnter = func() {
			h.mu.Lock()
			b := blocks
			h.mu.Unlock()
			if b > 0 {
				res.Violate("C08.sync-during-block", "the runtime's synchronization callback was entered while %d plugin-sync block(s) were held", b)
			}
		}
		names := []string{"kai", "lea", "max", "nia", "oli", "pia"}
		var plugs []*Plug
		for k := 0; k < w.Early; k++ {
			p := h.AddPlugin(names[k], fmt.Sprintf("%02d", 10*k), 0)
			plugs = append(plugs, p)
			h.StartTask(p)
		}
		if err := e.RunUntil(200000, func() bool { return e.TasksDone() && h.L.AcceptCount() >= w.Early+1 }); err != nil {
			res.Violate("C08.setup", "early registration: %v", err)
			return
		}
		failing := map[string]bool{}
		for _, k := range w.FailSync {
			if k < w.Late {
				failing[names[w.Early+k]] = true
			}
		}
		h.Script = func(plugin, rpc, token string) *Reply {
			if rpc == "Synchronize" && failing[plugin] {
				return &Reply{Err: "plugin " + plugin + " cannot synchronize"}
			}
			if w.SlowMs > 0 && rpc == "CreateContainer" && (plugin == names[0] || plugin == names[1]) {
				return &Reply{SleepMs: w.SlowMs}
			}
			return nil
		}
		for k := 0; k < w.Late; k++ {
			p := h.AddPlugin(names[w.Early+k], fmt.Sprintf("%02d", 5+10*k), 0)
			plugs = append(plugs, p)
			h.StartTask(p)
		}
		var created []string
		lastUnblock := -1
		for ci, n := range w.Creators {
			ci, n := ci, n
			e.Task(fmt.Sprintf("creator%d", ci), func() {
				var old []interface{ Unblock() }
				defer func() {
					for _, o := range old {
						o.Unblock()
					}
				}()
				for k := 0; k < n; k++ {
					id := fmt.Sprintf("c%d.%d", ci, k)
					b := h.R.BlockPluginSync()
					h.mu.Lock()
					blocks++
					insync := h.InSync
					h.mu.Unlock()
					if insync > 0 {
						res.Violate("C08.block-during-sync", "BlockPluginSync returned while %d synchronization(s) were in progress", insync)
					}
					ctr := &api.Container{Id: id, PodSandboxId: pod.Id}
					// the runtime's own bookkeeping and the creation request, inside the block
					h.mu.Lock()
					h.Ctrs = append(h.Ctrs, ctr)
					created = append(created, id)
					h.mu.Unlock()
					_, err := h.Call("CreateContainer", pod, ctr, nil)
					if err != nil {
						res.Violate("C08.request", "CreateContainer %s failed: %v", id, err)
					}
					h.mu.Lock()
					blocks--
					h.mu.Unlock()
					b.Unblock()
					// "safe to call multiple times": the extra calls come late, after this and other
					// goroutines have taken further blocks
					for _, o := range old {
						o.Unblock()
					}
					old = old[:0]
					if k%2 == 1 || n == 1 {
						old = append(old, b)
					}
					lastUnblock = e.S.Steps
				}
			})
		}
		for bi, n := range w.Bystanders {
			bi, n := bi, n
			e.Task(fmt.Sprintf("bystander%d", bi), func() {
				evs := []string{"StopPodSandbox", "StartContainer", "PostStartContainer", "RunPodSandbox", "RemoveContainer", "PostUpdateContainer"}
				for k := 0; k < n; k++ {
					ev := evs[(bi+k)%len(evs)]
					bp := &api.PodSandbox{Id: fmt.Sprintf("bypod%d", bi), Name: "by"}
					if _, err := h.Call(ev, bp, &api.Container{Id: fmt.Sprintf("by%d.%d", bi, k), PodSandboxId: bp.Id}, nil); err != nil {
						res.Violate("C08.request", "%s (bystander) failed: %v", ev, err)
					}
				}
			})
		}
		if len(w.Bystanders) > 0 {
			res.Probe("C08.other-events-relayed-during-registrations")
		}
		total := w.Early + w.Late
		err := e.RunUntil(600000, func() bool { return e.TasksDone() && h.L.AcceptCount() >= total+1 })
		if err != nil {
			res.Violate("C08.liveness", "after the last sync block was released (step %d) pending registrations did not complete: %v; pending %v", lastUnblock, err, e.S.Pending())
			return
		}
		// final marker request proves activation of every plugin
		var merr error
		e.Task("marker", func() {
			_, merr = h.Call("StartContainer", pod, &api.Container{Id: "marker", PodSandboxId: pod.Id}, nil)
		})
		if err := e.RunUntil(200000, func() bool { return e.TasksDone() }); err != nil || merr != nil {
			res.Violate("C08.liveness", "marker request: %v / %v", err, merr)
			return
		}
		entries := h.entriesCopy()
		overlap := false
		for _, p := range plugs {
			if p.StartErr != nil {
				res.Violate("C08.registration", "plugin %s failed to start: %v", p.Name, p.StartErr)
				continue
			}
			snap := map[string]int{}
			got := map[string]int{}
			marker, synced := false, 0
			for _, en := range entries {
				if en.Plugin != p.Name {
					continue
				}
				switch en.RPC {
				case "Synchronize":
					synced++
					for _, c := range en.Ctrs {
						snap[c.Id]++
					}
				case "CreateContainer":
					got[en.Token]++
				case "StartContainer":
					if en.Token == "marker" {
						marker = true
					}
				}
			}
			if failing[p.Name] {
				// its synchronization failed: it must not become active, and must not hold anything up
				res.Probe("C08.failed-synchronization")
				if marker || len(got) > 0 {
					res.Violate("C08.failed-sync-not-activated", "plugin %s failed its synchronization but received %d creation requests (marker: %v)", p.Name, len(got), marker)
				}
				continue
			}
			if synced != 1 {
				res.Violate("C08.synchronized-once", "plugin %s was synchronized %d times", p.Name, synced)
				continue
			}
			if !marker {
				res.Violate("C08.activated", "plugin %s completed registration but did not receive the final marker request", p.Name)
			}
			all := append([]string{}, created...)
			for i := 0; i < w.Pre; i++ {
				all = append(all, fmt.Sprintf("pre%d", i))
			}
			ns, ng := 0, 0
			for _, id := range all {
				s, g := snap[id], got[id]
				if s > 0 {
					ns++
				}
				if g > 0 {
					ng++
				}
				switch {
				case s+g == 0:
					res.Violate("C08.exactly-once", "plugin %s never learned of container %s: it is neither in its synchronization snapshot nor did it get the creation request", p.Name, id)
				case s > 0 && g > 0:
					res.Violate("C08.exactly-once", "plugin %s learned of container %s twice: in its synchronization snapshot and by a creation request", p.Name, id)
				case s > 1 || g > 1:
					res.Violate("C08.exactly-once", "plugin %s: container %s appears %d times in the snapshot, %d creation requests", p.Name, id, s, g)
				}
			}
			if ng > 0 && ns > w.Pre {
				overlap = true
			}
		}
		if overlap {
			res.Probe("C08.registration-between-creations")
		}
		res.Nontrivial = overlap
		res.Summary = map[string]any{"created": len(created), "plugins": total, "a_plugin_saw_some_containers_in_snapshot_and_others_by_request": overlap}
	})
}

func c08Shrink(wl any) []any {
	w := wl.(*C08W)
	var out []any
	if w.Early > 0 {
		c := jsonClone(w)
		c.Early = 0
		out = append(out, c)
	}
	if w.Pre > 0 {
		c := jsonClone(w)
		c.Pre = 0
		out = append(out, c)
	}
	if len(w.FailSync) > 0 {
		c := jsonClone(w)
		c.FailSync = nil
		out = append(out, c)
	}
	if w.Late > 1 {
		c := jsonClone(w)
		c.Late--
		out = append(out, c)
	}
	for i := range w.Creators {
		if len(w.Creators) > 1 {
			c := jsonClone(w)
			c.Creators = append(c.Creators[:i], c.Creators[i+1:]...)
			out = append(out, c)
		}
		if w.Creators[i] > 1 {
			c := jsonClone(w)
			c.Creators[i]--
			out = append(out, c)
		}
	}
	return out
}

func init() {
	register(&Property{
		ID:     "C08",
		Gen:    c08Gen,
		New:    func() any { return &C08W{} },
		Run:    c08Run,
		Shrink: c08Shrink,
		Confs: func(tier string) []Conf {
			if tier == "thorough" {
				return []Conf{{Name: "random", Weight: 3}, {Name: "deep", Weight: 1}}
			}
			return []Conf{{Name: "random", Weight: 1}}
		},
		Strategies: []string{"uniform", "pct", "pct", "starve", "starve", "lag"},
		Components: h1Components,
		Rule: "1-3 runtime goroutines each creating 1-4 containers (store update + CreateContainer inside BlockPluginSync/Unblock) while 1-4 plugins register (0-1 registered earlier, 0-2 containers pre-existing); " +
			"non-trivial = some plugin learned of some containers through its snapshot and of others through creation requests, i.e. its registration really fell between creations; distinct = distinct event-log hash",
	})
}
