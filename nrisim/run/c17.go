package run

import (
	"context"
	"fmt"
	"math/rand"
	stdnet "net"
	"os"
	"path/filepath"
	stdsync "sync"
	"syscall"
	"testing"
	"time"

	"nrisim/sim"

	nri "github.com/containerd/nri/pkg/adaptation"
	"github.com/containerd/nri/pkg/api"
	"github.com/containerd/nri/pkg/net/multiplex"
	"github.com/containerd/ttrpc"
)

// C17 - only well-formed, timely registrations are activated; the socket is private.
// H1': the real adaptation against scripted plugin ends that speak the protocol through
// the real mux, ttRPC and generated bindings (no stub).

type C17Plugin struct {
	Kind    string `json:"kind"` // valid | empty-name | bad-index | never-registers | late | early | never-configures | bad-mask | good-mask | cfg-error
	Name    string `json:"name"`
	Idx     string `json:"idx"`
	Mask    int32  `json:"mask"`
	DelayMs int    `json:"delay_ms"`
}

type C17W struct {
	TregMs  int         `json:"treg_ms"`
	TreqMs  int         `json:"treq_ms"`
	Plugins []C17Plugin `json:"plugins"`
	// DisableFirst: the option disabling external connections is given before the socket path option
	DisableFirst bool `json:"disable_first,omitempty"`
	FS           bool `json:"fs,omitempty"` // the real-filesystem configuration sweep case (no simulation)
	Umask        int  `json:"umask,omitempty"`
	Depth        int  `json:"depth,omitempty"`
	NoListen     bool `json:"no_listen,omitempty"`
}

var c17BadIdx = []string{"", "0", "000", "1a", "a1", "-1", " 1", "1 ", "१२", "１２", "+1", "0x", "1.", "٣٤"}

func c17Gen(rng *rand.Rand, conf string, idx int) any {
	if conf == "fs" {
		return &C17W{FS: true, Umask: []int{0, 0o022, 0o027, 0o077, 0o002, 0o007}[idx%6], Depth: 1 + idx/6%3, NoListen: idx/18%3 >= 1, DisableFirst: idx/18%3 == 2}
	}
	w := &C17W{TregMs: pick(rng, []int{300, 500, 1000}), TreqMs: pick(rng, []int{200, 400})}
	n := 1 + rng.Intn(5)
	for i := 0; i < n; i++ {
		p := C17Plugin{Name: fmt.Sprintf("pl%d", i), Idx: fmt.Sprintf("%02d", rng.Intn(100))}
		kinds := []string{"valid", "valid", "empty-name", "bad-index", "never-registers", "never-configures", "bad-mask", "good-mask", "cfg-error", "retry-bad", "re-register", "re-register-hang"}
		if i == 0 {
			kinds = append(kinds, "late", "early")
		}
		p.Kind = pick(rng, kinds)
		switch p.Kind {
		case "empty-name":
			p.Name = ""
		case "bad-index":
			p.Idx = pick(rng, c17BadIdx)
		case "retry-bad":
			// a malformed registration every 0.6 x T_reg, a well-formed one only after 3 x T_reg
			p.DelayMs = w.TregMs * 6 / 10
		case "late":
			p.DelayMs = w.TregMs + 60 + rng.Intn(200)
		case "early":
			p.DelayMs = w.TregMs - 60 - rng.Intn(w.TregMs-100)
		case "re-register":
			// registers properly, repeats the registration twice while being configured, then answers
			// the configuration with an invalid mask
			p.Mask = 1 << 13
		case "bad-mask":
			p.Mask = pick(rng, []int32{1 << 13, 1 << 14, -1, -2147483648, 1<<13 | 5, int32(rng.Uint32() | 1<<uint(13+rng.Intn(18))), 0x7fffffff})
		case "good-mask":
			p.Mask = int32(1 + rng.Intn(8191))
		}
		w.Plugins = append(w.Plugins, p)
	}
	// a valid plugin behind them
	w.Plugins = append(w.Plugins, C17Plugin{Kind: "valid", Name: "last", Idx: fmt.Sprintf("%02d", rng.Intn(100))})
	return w
}

// pend is a scripted plugin end.
type pend struct {
	w                   C17Plugin
	e                   *Env
	conn                *sim.Conn
	mux                 multiplex.Mux
	srv                 *ttrpc.Server
	cc                  *ttrpc.Client
	rt                  api.RuntimeService
	mu                  stdsync.Mutex
	regErr              error
	regDone             bool
	cfgN, syncN, events int
	syncAt              time.Duration
	closed              bool
	start               time.Time
}

func newPend(e *Env, w C17Plugin, conn *sim.Conn) *pend {
	p := &pend{w: w, e: e, conn: conn, start: time.Now()}
	p.mux = multiplex.Multiplex(conn)
	l, err := p.mux.Listen(multiplex.PluginServiceConn)
	if err != nil {
		panic(err)
	}
	p.srv, _ = ttrpc.NewServer()
	api.RegisterPluginService(p.srv, p)
	cconn, _ := p.mux.Open(multiplex.RuntimeServiceConn)
	p.cc = ttrpc.NewClient(cconn, ttrpc.WithOnClose(func() { p.mu.Lock(); p.closed = true; p.mu.Unlock() }))
	p.rt = api.NewRuntimeClient(p.cc)
	go func() {
		e.S.SetGName("pend-serve-" + w.Name)
		p.srv.Serve(context.Background(), l)
	}()
	return p
}

func (p *pend) close() {
	p.mux.Close()
	p.cc.Close()
	p.srv.Close()
}

func (p *pend) Configure(ctx context.Context, req *api.ConfigureRequest) (*api.ConfigureResponse, error) {
	p.mu.Lock()
	p.cfgN++
	p.mu.Unlock()
	switch p.w.Kind {
	case "re-register", "re-register-hang":
		for k := 0; k < 2; k++ {
			k := k
			go func() {
				p.e.S.SetGName(fmt.Sprintf("re-register-%s-%d", p.w.Name, k))
				// the second repetition may never be answered; the connection's end releases it
				p.rt.RegisterPlugin(context.Background(), &api.RegisterPluginRequest{PluginName: p.w.Name, PluginIdx: p.w.Idx})
			}()
		}
		time.Sleep(30 * time.Millisecond)
		if p.w.Kind == "re-register-hang" {
			<-p.e.Hung()
			return nil, fmt.Errorf("late")
		}
	case "never-configures":
		<-p.e.Hung()
		return nil, fmt.Errorf("late")
	case "cfg-error":
		return nil, fmt.Errorf("plugin %s refuses its configuration", p.w.Name)
	}
	return &api.ConfigureResponse{Events: p.w.Mask}, nil
}
func (p *pend) Synchronize(ctx context.Context, req *api.SynchronizeRequest) (*api.SynchronizeResponse, error) {
	p.mu.Lock()
	p.syncN++
	p.syncAt = time.Since(p.start)
	p.mu.Unlock()
	return &api.SynchronizeResponse{More: req.More}, nil
}
func (p *pend) Shutdown(ctx context.Context, req *api.Empty) (*api.Empty, error) {
	return &api.Empty{}, nil
}
func (p *pend) ev() { p.mu.Lock(); p.events++; p.mu.Unlock() }
func (p *pend) CreateContainer(ctx context.Context, req *api.CreateContainerRequest) (*api.CreateContainerResponse, error) {
	p.ev()
	return &api.CreateContainerResponse{}, nil
}
func (p *pend) UpdateContainer(ctx context.Context, req *api.UpdateContainerRequest) (*api.UpdateContainerResponse, error) {
	p.ev()
	return &api.UpdateContainerResponse{}, nil
}
func (p *pend) StopContainer(ctx context.Context, req *api.StopContainerRequest) (*api.StopContainerResponse, error) {
	p.ev()
	return &api.StopContainerResponse{}, nil
}
func (p *pend) UpdatePodSandbox(ctx context.Context, req *api.UpdatePodSandboxRequest) (*api.UpdatePodSandboxResponse, error) {
	p.ev()
	return &api.UpdatePodSandboxResponse{}, nil
}
func (p *pend) StateChange(ctx context.Context, req *api.StateChangeEvent) (*api.Empty, error) {
	p.ev()
	return &api.Empty{}, nil
}

func c17Run(t *testing.T, wl any, sc SchedCfg) *Result {
	w := wl.(*C17W)
	if w.FS {
		return c17FS(w)
	}
	return Bubble(t, sc, func(e *Env) {
		res := e.Res
		treg, treq := time.Duration(w.TregMs)*time.Millisecond, time.Duration(w.TreqMs)*time.Millisecond
		nri.SetPluginRegistrationTimeout(treg)
		nri.SetPluginRequestTimeout(treq)
		e.S.IdleLimit = int((treg+treq)*time.Duration(len(w.Plugins)+1)/e.S.Quantum) + 300
		l := e.S.Listen()
		syncFn := func(ctx context.Context, cb nri.SyncCB) error { _, err := cb(ctx, nil, nil); return err }
		updFn := func(ctx context.Context, u []*api.ContainerUpdate) ([]*api.ContainerUpdate, error) { return nil, nil }
		r, err := nri.New("simrt", "1", syncFn, updFn, nri.WithDisabledExternalConnections(), nri.WithPluginPath("/nonexistent-verif"), nri.WithPluginConfigPath("/nonexistent-verif"))
		if err != nil {
			panic(err)
		}
		if err := r.Start(); err != nil {
			panic(err)
		}
		r.VerifServe(l)
		var ends []*pend
		e.OnTeardown(func() {
			r.Stop()
			for _, p := range ends {
				p.close()
			}
		})
		t0 := time.Now()
		for i, pw := range w.Plugins {
			p := newPend(e, pw, l.Dial(fmt.Sprintf("c%d", i)))
			ends = append(ends, p)
			if pw.Kind == "never-registers" {
				continue
			}
			e.Task("register-"+fmt.Sprint(i), func() {
				if pw.Kind == "retry-bad" {
					for k := 0; k < 5; k++ {
						p.rt.RegisterPlugin(context.Background(), &api.RegisterPluginRequest{PluginName: pw.Name, PluginIdx: "x" + fmt.Sprint(k)})
						time.Sleep(time.Duration(pw.DelayMs) * time.Millisecond)
					}
				} else if pw.DelayMs > 0 {
					time.Sleep(time.Duration(pw.DelayMs) * time.Millisecond)
				}
				_, err := p.rt.RegisterPlugin(context.Background(), &api.RegisterPluginRequest{PluginName: pw.Name, PluginIdx: pw.Idx})
				p.mu.Lock()
				p.regErr, p.regDone = err, true
				p.mu.Unlock()
			})
		}
		n := len(w.Plugins)
		rerr := e.RunUntil(2000000, func() bool { return l.AcceptCount() >= n+1 })
		elapsed := time.Since(t0)
		if rerr != nil {
			res.Violate("C17.later-plugins-register", "the accept loop did not get through %d connections (%v) within %v of simulated time: a bad plugin blocks later ones; plugins %s", n, rerr, elapsed, c17Desc(w))
			return
		}
		// a marker event for everybody who is active
		var merr error
		markerDone := false
		e.Task("marker", func() {
			merr = r.StartContainer(context.Background(), &api.StateChangeEvent{Pod: &api.PodSandbox{Id: "p"}, Container: &api.Container{Id: "marker", PodSandboxId: "p"}})
			markerDone = true
		})
		// (a plugin that keeps re-sending a rejected registration may sit in that call for ever: only
		// the marker has to finish)
		if err := e.RunUntil(500000, func() bool { return markerDone }); err != nil || merr != nil {
			res.Violate("C17.runtime-alive", "marker event after the registrations: %v / %v; plugins %s", err, merr, c17Desc(w))
			return
		}
		bound := time.Duration(0)
		for i, pw := range w.Plugins {
			p := ends[i]
			good := pw.Kind == "valid" || pw.Kind == "good-mask" || pw.Kind == "early"
			p.mu.Lock()
			syncN, events := p.syncN, p.events
			p.mu.Unlock()
			if good {
				if syncN != 1 || events != 1 {
					// a good-mask plugin that did not subscribe StartContainer gets no marker
					sub := pw.Mask == 0 || api.EventMask(pw.Mask)&EventBit("StartContainer") != 0
					if syncN != 1 || (sub && events != 1) || (!sub && events != 0) {
						res.Violate("C17.valid-activated", "plugin %d (%s, name %q index %q mask %#x delay %dms) registered properly and in time but was synchronized %d times and got %d events; plugins %s", i, pw.Kind, pw.Name, pw.Idx, uint32(pw.Mask), pw.DelayMs, syncN, events, c17Desc(w))
					}
				}
			} else if syncN != 0 || events != 0 {
				res.Violate("C17.invalid-not-activated", "plugin %d (%s, name %q index %q mask %#x delay %dms) must not become active but was synchronized %d times and got %d events; plugins %s", i, pw.Kind, pw.Name, pw.Idx, uint32(pw.Mask), pw.DelayMs, syncN, events, c17Desc(w))
			}
			switch pw.Kind {
			case "never-registers", "late":
				bound += treg
			case "retry-bad":
				// rejected at its first malformed registration: no stall allowed for it
			case "never-configures", "re-register-hang":
				bound += treq
			case "re-register":
				bound += 30 * time.Millisecond
			case "early":
				bound += time.Duration(pw.DelayMs) * time.Millisecond
			}
			if !good {
				res.Nontrivial = true
				res.Probe("C17.bad." + pw.Kind)
			}
		}
		slack := time.Duration(n)*50*time.Millisecond + 100*time.Millisecond
		last := ends[n-1]
		if last.syncAt > bound+slack {
			res.Violate("C17.bounded", "the valid plugin behind %d others was synchronized after %v of simulated time; the stalls of the plugins before it allow %v (+%v slack); plugins %s", n-1, last.syncAt, bound, slack, c17Desc(w))
		}
		res.Summary = map[string]any{"plugins": c17Desc(w), "valid_plugin_synchronized_after": last.syncAt.String(), "allowed": (bound + slack).String()}
	})
}

func c17Desc(w *C17W) string {
	s := ""
	for i, p := range w.Plugins {
		if i > 0 {
			s += ", "
		}
		s += p.Kind
		switch p.Kind {
		case "bad-index":
			s += fmt.Sprintf("(%q)", p.Idx)
		case "bad-mask", "good-mask":
			s += fmt.Sprintf("(%#x)", uint32(p.Mask))
		case "late", "early":
			s += fmt.Sprintf("(%dms)", p.DelayMs)
		}
	}
	return fmt.Sprintf("[%s] T_reg=%dms T_req=%dms", s, w.TregMs, w.TreqMs)
}

// c17FS is the real-filesystem configuration case (no simulation, reported as such): the
// socket directory NRI creates must be accessible to the runtime's user only, and with
// external connections disabled no socket is served.
func c17FS(w *C17W) *Result {
	res := &Result{Diverged: -1, Nontrivial: true}
	res.Probe("C17.fs-case")
	base, err := os.MkdirTemp("/verif/.build/tmp", "c17fs")
	if err != nil {
		res.Violate("C17.fs-setup", "%v", err)
		return res
	}
	defer os.RemoveAll(base)
	os.Chmod(base, 0o755)
	dir := base
	var created []string
	for i := 0; i < w.Depth; i++ {
		dir = filepath.Join(dir, fmt.Sprintf("d%d", i))
		created = append(created, dir)
	}
	sock := filepath.Join(dir, "nri.sock")
	old := syscall.Umask(w.Umask)
	defer syscall.Umask(old)
	syncFn := func(ctx context.Context, cb nri.SyncCB) error { _, err := cb(ctx, nil, nil); return err }
	updFn := func(ctx context.Context, u []*api.ContainerUpdate) ([]*api.ContainerUpdate, error) { return nil, nil }
	opts := []nri.Option{nri.WithSocketPath(sock), nri.WithPluginPath(filepath.Join(base, "no-plugins")), nri.WithPluginConfigPath(filepath.Join(base, "no-conf"))}
	if w.NoListen && w.DisableFirst {
		opts = append([]nri.Option{nri.WithDisabledExternalConnections()}, opts...)
	} else if w.NoListen {
		opts = append(opts, nri.WithDisabledExternalConnections())
	}
	r, err := nri.New("fsrt", "1", syncFn, updFn, opts...)
	if err != nil {
		res.Violate("C17.fs-setup", "%v", err)
		return res
	}
	if err := r.Start(); err != nil {
		res.Violate("C17.fs-setup", "Start: %v", err)
		return res
	}
	defer r.Stop()
	if w.NoListen {
		if _, err := os.Stat(sock); err == nil {
			res.Violate("C17.no-socket-when-disabled", "external connections are disabled but %s exists", sock)
		}
		if c, err := stdnet.DialTimeout("unix", sock, 200*time.Millisecond); err == nil {
			c.Close()
			res.Violate("C17.no-socket-when-disabled", "external connections are disabled but a dial to %s succeeded", sock)
		}
		return res
	}
	for _, d := range created {
		st, err := os.Stat(d)
		if err != nil {
			res.Violate("C17.socket-dir-private", "directory %s was not created: %v", d, err)
			continue
		}
		if st.Mode().Perm()&0o077 != 0 {
			res.Violate("C17.socket-dir-private", "socket directory %s created by NRI has mode %o under umask %03o: accessible to group/others", d, st.Mode().Perm(), w.Umask)
		}
	}
	if c, err := stdnet.DialTimeout("unix", sock, time.Second); err != nil {
		res.Violate("C17.socket-served", "dial %s: %v", sock, err)
	} else {
		c.Close()
	}
	res.Summary = map[string]any{"umask": fmt.Sprintf("%03o", w.Umask), "missing_directory_levels": w.Depth, "external_connections_disabled": w.NoListen}
	return res
}

func c17Shrink(wl any) []any {
	w := wl.(*C17W)
	if w.FS {
		return nil
	}
	var out []any
	for i := 0; i < len(w.Plugins)-1; i++ {
		c := jsonClone(w)
		c.Plugins = append(c.Plugins[:i], c.Plugins[i+1:]...)
		out = append(out, c)
	}
	for i := 0; i < len(w.Plugins)-1; i++ {
		if w.Plugins[i].Kind != "valid" {
			c := jsonClone(w)
			c.Plugins[i] = C17Plugin{Kind: "valid", Name: w.Plugins[i].Name, Idx: "10"}
			if c.Plugins[i].Name == "" {
				c.Plugins[i].Name = "x"
			}
			out = append(out, c)
		}
	}
	return out
}

func init() {
	comp := map[string]string{}
	for k, v := range h1Components {
		comp[k] = v
	}
	delete(comp, "pkg/stub")
	comp["plugin ends"] = "scripted harness code speaking the protocol through the generated client/server over real mux + ttRPC (no stub)"
	comp["socket directory / disabled listener (conf fs)"] = "real filesystem and real unix socket, outside the simulator: a deterministic configuration sweep, not simulation"
	register(&Property{
		ID: "C17", Gen: c17Gen, New: func() any { return &C17W{} }, Run: c17Run, Shrink: c17Shrink,
		Confs: func(tier string) []Conf {
			return []Conf{{Name: "fs", Grid: 54}, {Name: "random", Weight: 1}}
		},
		Components: comp,
		Rule: "random: 1-5 scripted plugin ends drawn from {valid, empty name, malformed index (14 strings incl. multi-byte digits), never registers, registers T_reg+60..260ms late / early (first position), never answers Configure, Configure error, mask with invalid bits (1<<13, sign bit, random), valid non-empty mask} followed by a valid one, T_reg in {300,500,1000} ms and T_req in {200,400} ms of simulated time; " +
			"fs (54 enumerated real-filesystem cases, not simulation): umask x 1-3 missing directory levels x external connections enabled / disabled (option given after or before the socket path option); non-trivial = at least one bad plugin, or an fs case; distinct = distinct event-log hash",
	})
}
