package run

import (
	"context"
	"fmt"
	"math/rand"
	"sort"
	"strings"
	"testing"
	"time"

	"github.com/containerd/nri/pkg/api"
)

// C06 - subscribed plugins get each event once, in index order, in one common order.

type C06Plugin struct {
	Name string `json:"name"`
	Idx  string `json:"idx"`
	Mask uint32 `json:"mask"` // 0 = everything
	Late bool   `json:"late"` // registers while traffic is running
	// NoSync: the plugin has no Synchronize handler (the stub answers synchronization itself)
	NoSync bool `json:"no_sync,omitempty"`
}

type C06Caller struct {
	Block  bool     `json:"block"` // wrap every call in BlockPluginSync/Unblock
	Events []string `json:"events"`
}

type C06W struct {
	Plugins []C06Plugin `json:"plugins"`
	Callers []C06Caller `json:"callers"`
	Exits   []string    `json:"exits,omitempty"`  // plugins that stop themselves at some point during the traffic
	Rejoin  []string    `json:"rejoin,omitempty"` // of those, the ones that start again (same stub, fresh connection) afterwards
	// TreqMs > 0: finite request timeout, and every event handler takes SlowMs of simulated time (less
	// than the timeout each, more than it taken together): nobody may be skipped or dropped for that
	TreqMs int `json:"treq_ms,omitempty"`
	SlowMs int `json:"slow_ms,omitempty"`
}

const hugeTimeout = 1000 * time.Hour

func c06Gen(rng *rand.Rand, conf string, idx int) any {
	w := &C06W{}
	names := []string{"ant", "bee", "cat", "dog", "eel", "fox"}
	rng.Shuffle(len(names), func(i, j int) { names[i], names[j] = names[j], names[i] })
	if strings.HasPrefix(conf, "masksweep") {
		// enumerated: 5 consecutive masks per run, all 13 events from one caller
		for k := 0; k < 5; k++ {
			m := uint32(idx*5+k) % 8192
			w.Plugins = append(w.Plugins, C06Plugin{Name: names[k], Idx: fmt.Sprintf("%02d", rng.Intn(100)), Mask: m})
		}
		ev := append([]string(nil), EventNames...)
		rng.Shuffle(len(ev), func(i, j int) { ev[i], ev[j] = ev[j], ev[i] })
		w.Callers = []C06Caller{{Block: rng.Intn(2) == 0, Events: ev}}
		return w
	}
	n := 1 + rng.Intn(6)
	if conf == "deep" {
		n = 4 + rng.Intn(3)
	}
	idxPool := rng.Intn(3) // 0: spread, 1: few values (collisions), 2: random
	for k := 0; k < n; k++ {
		var ix int
		switch idxPool {
		case 0:
			ix = rng.Intn(100)
		case 1:
			ix = 10 * rng.Intn(3)
		default:
			ix = rng.Intn(8)
		}
		var m uint32
		switch rng.Intn(4) {
		case 0:
			m = 0
		case 1:
			m = uint32(1 + rng.Intn(8191))
		case 2:
			m = 8191
		default:
			m = 1 << uint(rng.Intn(13))
			if rng.Intn(2) == 0 {
				m |= 1 << uint(rng.Intn(13))
			}
		}
		w.Plugins = append(w.Plugins, C06Plugin{Name: names[k], Idx: fmt.Sprintf("%02d", ix), Mask: m, Late: rng.Intn(3) == 0, NoSync: rng.Intn(4) == 0})
	}
	m := 1 + rng.Intn(4*deep(conf))
	for c := 0; c < m; c++ {
		cl := C06Caller{Block: rng.Intn(3) != 0}
		for k, ne := 0, 1+rng.Intn(5*deep(conf)); k < ne; k++ {
			cl.Events = append(cl.Events, pick(rng, EventNames))
		}
		w.Callers = append(w.Callers, cl)
	}
	if rng.Intn(5) == 0 {
		// (registration during slow traffic may legitimately time out: everybody registers first)
		w.TreqMs = pick(rng, []int{400, 500})
		w.SlowMs = w.TreqMs * 6 / 10
		for k := range w.Plugins {
			w.Plugins[k].Late = false
		}
	} else if rng.Intn(3) == 0 {
		for _, p := range w.Plugins {
			if !p.Late && rng.Intn(3) == 0 {
				w.Exits = append(w.Exits, p.Name)
				if rng.Intn(2) == 0 {
					w.Rejoin = append(w.Rejoin, p.Name)
				}
			}
		}
	}
	return w
}

type c06Req struct {
	ID       string
	Event    string
	Caller   int
	Inv, Ret int
	Err      error
	Resp     any
}

func c06Run(t *testing.T, wl any, sc SchedCfg) *Result {
	w := wl.(*C06W)
	return Bubble(t, sc, func(e *Env) {
		res := e.Res
		treq := hugeTimeout
		if w.TreqMs > 0 {
			treq = time.Duration(w.TreqMs) * time.Millisecond
			res.Probe("C06.slow-handlers-under-a-finite-request-timeout")
		}
		h := NewH1(e, treq, hugeTimeout)
		h.Script = func(plugin, rpc, token string) *Reply {
			slow := 0
			if rpc != "Synchronize" {
				slow = w.SlowMs
			}
			switch rpc {
			case "CreateContainer":
				a := &api.ContainerAdjustment{}
				a.AddAnnotation("tok-"+plugin, token)
				return &Reply{Adjust: a, SleepMs: slow}
			case "UpdateContainer", "StopContainer":
				u := &api.ContainerUpdate{ContainerId: "t-" + plugin + "-" + token}
				u.SetLinuxMemoryLimit(4096)
				return &Reply{Updates: []*api.ContainerUpdate{u}, SleepMs: slow}
			}
			if slow > 0 {
				return &Reply{SleepMs: slow}
			}
			return nil
		}
		h.NoSyncHandler = map[string]bool{}
		for _, pw := range w.Plugins {
			if pw.NoSync {
				h.NoSyncHandler[pw.Name] = true
				res.Probe("C06.plugin-without-synchronize-handler")
			}
		}
		var early, late []*Plug
		for _, pw := range w.Plugins {
			if !pw.Late {
				p := h.AddPlugin(pw.Name, pw.Idx, api.EventMask(pw.Mask))
				early = append(early, p)
				h.StartTask(p)
			}
		}
		if err := e.RunUntil(200000, func() bool { return e.TasksDone() && h.L.AcceptCount() >= len(early)+1 }); err != nil {
			res.Violate("C06.liveness", "phase 1 (registration of %d plugins): %v; pending %v", len(early), err, e.S.Pending())
			return
		}
		for _, pw := range w.Plugins {
			if pw.Late {
				p := h.AddPlugin(pw.Name, pw.Idx, api.EventMask(pw.Mask))
				late = append(late, p)
				h.StartTask(p)
			}
		}
		exitStep := map[string]int{}
		rejoined := map[string]bool{}
		var rejoinErr []string
		for _, name := range w.Exits {
			name := name
			if pl := h.Plugs[name]; pl != nil {
				rejoin := false
				for _, r := range w.Rejoin {
					if r == name {
						rejoin = true
					}
				}
				e.Task("exit-"+name, func() {
					h.mu.Lock()
					exitStep[name] = e.S.Steps
					h.mu.Unlock()
					pl.Stub.Stop()
					if rejoin {
						e.S.Probe("C06.plugin-rejoins")
						err := pl.Stub.Start(context.Background())
						h.mu.Lock()
						rejoined[name] = err == nil
						if err != nil {
							rejoinErr = append(rejoinErr, fmt.Sprintf("%s: %v", name, err))
						}
						h.mu.Unlock()
					}
				})
			}
		}
		var reqs []*c06Req
		for ci, cl := range w.Callers {
			ci, cl := ci, cl
			mine := make([]*c06Req, len(cl.Events))
			for k, ev := range cl.Events {
				mine[k] = &c06Req{ID: fmt.Sprintf("r%d.%d", ci, k), Event: ev, Caller: ci, Inv: -1, Ret: -1}
				reqs = append(reqs, mine[k])
			}
			e.Task(fmt.Sprintf("caller%d", ci), func() {
				for _, rq := range mine {
					pod := &api.PodSandbox{Id: "pod-" + rq.ID, Name: "pod"}
					ctr := &api.Container{Id: rq.ID, PodSandboxId: pod.Id, Name: "ctr"}
					if IsPodEvent(rq.Event) {
						pod.Id = rq.ID
						ctr = nil
					}
					rq.Inv = e.S.Steps
					var b interface{ Unblock() }
					if cl.Block {
						b = h.R.BlockPluginSync()
					}
					rq.Resp, rq.Err = h.Call(rq.Event, pod, ctr, nil)
					if b != nil {
						b.Unblock()
					}
					rq.Ret = e.S.Steps
				}
			})
		}
		if err := e.RunUntil(400000, func() bool {
			h.mu.Lock()
			nd := h.ndials
			h.mu.Unlock()
			return e.TasksDone() && h.L.AcceptCount() >= nd+1
		}); err != nil {
			res.Violate("C06.liveness", "phase 2: %v; pending %v", err, e.S.Pending())
			return
		}
		for _, m := range rejoinErr {
			res.Violate("C06.registration", "a plugin that had stopped could not register again: %s", m)
		}
		// after everything settled: one more request that every plugin still (or again) registered must get
		var last *c06Req
		if len(w.Rejoin) > 0 {
			last = &c06Req{ID: "rfinal", Event: "StartContainer", Inv: -1, Ret: -1}
			e.Task("final-request", func() {
				e.S.Settle("final-request")
				pod := &api.PodSandbox{Id: "pod-rfinal"}
				last.Inv = e.S.Steps
				last.Resp, last.Err = h.Call("StartContainer", pod, &api.Container{Id: "rfinal", PodSandboxId: pod.Id}, nil)
				last.Ret = e.S.Steps
			})
			if err := e.RunUntil(200000, func() bool { return e.TasksDone() }); err != nil {
				res.Violate("C06.liveness", "final request: %v", err)
				return
			}
			got := map[string]int{}
			for _, en := range h.entriesCopy() {
				if en.Token == "rfinal" {
					got[en.Plugin]++
				}
			}
			for _, p := range w.Plugins {
				gone := false
				if _, ex := exitStep[p.Name]; ex && !rejoined[p.Name] {
					gone = true
				}
				want := 1
				if gone || !subscribed(p.Mask, "StartContainer") {
					want = 0
				}
				if got[p.Name] != want {
					res.Violate("C06.exactly-once", "final request after all registrations, exits and re-registrations had settled: plugin %s (mask %#x, exited: %v, rejoined: %v) was invoked %d times, want %d", p.Name, p.Mask, exitStep[p.Name] > 0, rejoined[p.Name], got[p.Name], want)
				}
			}
		}
		c06Oracle(res, w, h, reqs, exitStep)
	})
}

func subscribed(mask uint32, ev string) bool {
	return mask == 0 || api.EventMask(mask)&EventBit(ev) != 0
}

func c06Oracle(res *Result, w *C06W, h *H1, reqs []*c06Req, exitStep map[string]int) {
	entries := h.entriesCopy()
	byReq := map[string][]*Entry{}
	for _, en := range entries {
		if en.RPC == "Synchronize" {
			continue
		}
		byReq[en.Token] = append(byReq[en.Token], en)
	}
	syncStep := map[string]int{}
	for _, en := range entries {
		if en.RPC == "Synchronize" {
			if _, seen := syncStep[en.Plugin]; !seen { // the first synchronization (a plugin may rejoin later)
				syncStep[en.Plugin] = en.Step
			}
		}
	}
	pw := map[string]C06Plugin{}
	for _, p := range w.Plugins {
		pw[p.Name] = p
	}
	for _, p := range w.Plugins {
		pl := h.Plugs[p.Name]
		if pl.StartErr != nil {
			res.Violate("C06.registration", "plugin %s-%s failed to start: %v", p.Idx, p.Name, pl.StartErr)
		}
	}
	maybe := 0
	for _, rq := range reqs {
		if rq.Err != nil {
			res.Violate("C06.no-error", "request %s (%s) failed: %v", rq.ID, rq.Event, rq.Err)
			continue
		}
		cnt := map[string]int{}
		var order []string
		for _, en := range byReq[rq.ID] {
			if en.RPC != rq.Event {
				res.Violate("C06.right-handler", "request %s is %s but plugin %s got it as %s", rq.ID, rq.Event, en.Plugin, en.RPC)
			}
			cnt[en.Plugin]++
			order = append(order, en.Plugin)
		}
		invoked := map[string]bool{}
		for _, p := range w.Plugins {
			pl := h.Plugs[p.Name]
			sub := subscribed(p.Mask, rq.Event)
			reg := h.RegisteredStep(pl)
			certActive := pl.StartErr == nil && reg >= 0 && reg < rq.Inv
			if es, exited := exitStep[p.Name]; exited && rq.Ret >= es {
				// the plugin stopped itself before the request returned: it may or may not take part
				certActive = false
				res.Probe("C06.request-after-plugin-exit")
			}
			ss, synced := syncStep[p.Name]
			certInactive := !synced || rq.Ret <= ss
			if p.NoSync {
				certInactive = false // no handler tells when it was synchronized
			}
			c := cnt[p.Name]
			if c > 1 {
				res.Violate("C06.exactly-once", "request %s (%s): plugin %s invoked %d times", rq.ID, rq.Event, p.Name, c)
			}
			if !sub && c > 0 {
				res.Violate("C06.unsubscribed", "request %s (%s): plugin %s (mask %#x) is not subscribed but was invoked", rq.ID, rq.Event, p.Name, p.Mask)
			}
			if sub && certActive && c == 0 {
				res.Violate("C06.exactly-once", "request %s (%s): plugin %s (mask %#x) was registered at step %d before the request was invoked at step %d but was not invoked", rq.ID, rq.Event, p.Name, p.Mask, reg, rq.Inv)
			}
			if certInactive && c > 0 {
				res.Violate("C06.inactive", "request %s (%s): plugin %s invoked although it was not synchronized before the request returned", rq.ID, rq.Event, p.Name)
			}
			if sub && !certActive && !certInactive {
				maybe++
			}
			if c > 0 {
				invoked[p.Name] = true
			}
		}
		// (a plugin that stopped itself while the request was under way may enter its handler late: the
		// request had reached its stub in index order, but the handler goroutine of the dying session is
		// scheduled whenever - only the plugins that stayed are compared)
		stay := order[:0:0]
		for _, name := range order {
			if es, exited := exitStep[name]; exited && rq.Ret >= es {
				continue
			}
			stay = append(stay, name)
		}
		order = stay
		for i := 1; i < len(order); i++ {
			if pw[order[i-1]].Idx > pw[order[i]].Idx {
				res.Violate("C06.index-order", "request %s (%s): invocation order %v is not by index (%s-%s before %s-%s)", rq.ID, rq.Event, order,
					pw[order[i-1]].Idx, order[i-1], pw[order[i]].Idx, order[i])
			}
		}
		// result isolation
		got := map[string]bool{}
		switch r := rq.Resp.(type) {
		case *api.CreateContainerResponse:
			for k, v := range r.GetAdjust().GetAnnotations() {
				if !strings.HasPrefix(k, "tok-") || v != rq.ID {
					res.Violate("C06.isolation", "request %s: foreign annotation %q=%q in the result", rq.ID, k, v)
					continue
				}
				got[strings.TrimPrefix(k, "tok-")] = true
			}
		case *api.UpdateContainerResponse:
			for _, u := range r.GetUpdate() {
				if u == nil || u.ContainerId == rq.ID {
					continue // own container placeholder
				}
				c06tok(res, rq, u, got)
			}
		case *api.StopContainerResponse:
			for _, u := range r.GetUpdate() {
				c06tok(res, rq, u, got)
			}
		default:
			got = nil
		}
		if got != nil {
			for p := range invoked {
				if es, exited := exitStep[p]; exited && rq.Ret >= es {
					continue // the plugin stopped itself while the request was in flight: its reply may be lost
				}
				if !got[p] {
					res.Violate("C06.isolation", "request %s (%s): contribution of invoked plugin %s missing from the result", rq.ID, rq.Event, p)
				}
			}
			for p := range got {
				if !invoked[p] {
					res.Violate("C06.isolation", "request %s (%s): result carries a contribution of plugin %s which was not invoked for it", rq.ID, rq.Event, p)
				}
			}
		}
	}
	// one common order: per-plugin sequences + real-time precedence embed in a total order
	idx := map[string]int{}
	for i, rq := range reqs {
		idx[rq.ID] = i
	}
	n := len(reqs)
	adj := make([][]int, n)
	last := map[string]string{}
	for _, en := range entries {
		if en.RPC == "Synchronize" {
			continue
		}
		if _, ok := idx[en.Token]; !ok {
			continue
		}
		if prev, ok := last[en.Plugin]; ok && prev != en.Token {
			adj[idx[prev]] = append(adj[idx[prev]], idx[en.Token])
		}
		last[en.Plugin] = en.Token
	}
	for i, a := range reqs {
		for j, b := range reqs {
			if i != j && a.Ret >= 0 && b.Inv >= 0 && a.Ret < b.Inv {
				adj[i] = append(adj[i], j)
			}
		}
	}
	state := make([]int, n)
	var cyc []string
	var dfs func(v int) bool
	dfs = func(v int) bool {
		state[v] = 1
		for _, u := range adj[v] {
			if state[u] == 1 {
				cyc = append(cyc, reqs[u].ID, reqs[v].ID)
				return true
			}
			if state[u] == 0 && dfs(u) {
				cyc = append(cyc, reqs[v].ID)
				return true
			}
		}
		state[v] = 2
		return false
	}
	for v := 0; v < n; v++ {
		if state[v] == 0 && dfs(v) {
			res.Violate("C06.common-order", "plugins do not observe the requests in one common order: cycle through %v", cyc)
			break
		}
	}
	// non-trivial: at least two plugins were invoked for some request, or a late registration overlapped traffic
	multi := 0
	for _, ens := range byReq {
		if len(ens) >= 2 {
			multi++
		}
	}
	res.Nontrivial = multi > 0
	if maybe > 0 {
		res.Probe("C06.registration-overlaps-request")
	}
	if multi > 0 {
		res.Probe("C06.multi-plugin-request")
	}
	ord := []string{}
	for _, en := range entries {
		if en.RPC != "Synchronize" {
			ord = append(ord, en.Plugin+":"+en.Token)
		}
	}
	if len(ord) > 12 {
		ord = ord[:12]
	}
	res.Summary = map[string]any{"requests": n, "handler_entries": len(entries), "maybe_active_cases": maybe, "first_entries": ord}
}

func c06tok(res *Result, rq *c06Req, u *api.ContainerUpdate, got map[string]bool) {
	parts := strings.SplitN(u.GetContainerId(), "-", 3)
	if len(parts) != 3 || parts[0] != "t" || parts[2] != rq.ID {
		res.Violate("C06.isolation", "request %s: foreign update for %q in the result", rq.ID, u.GetContainerId())
		return
	}
	if got[parts[1]] {
		res.Violate("C06.isolation", "request %s: duplicate update entry for %q", rq.ID, u.GetContainerId())
	}
	got[parts[1]] = true
}

func c06Shrink(wl any) []any {
	w := wl.(*C06W)
	var out []any
	for i := range w.Plugins {
		if len(w.Plugins) > 1 {
			c := jsonClone(w)
			c.Plugins = append(c.Plugins[:i], c.Plugins[i+1:]...)
			out = append(out, c)
		}
	}
	for i := range w.Callers {
		if len(w.Callers) > 1 {
			c := jsonClone(w)
			c.Callers = append(c.Callers[:i], c.Callers[i+1:]...)
			out = append(out, c)
		}
		for k := range w.Callers[i].Events {
			if len(w.Callers[i].Events) > 1 {
				c := jsonClone(w)
				c.Callers[i].Events = append(c.Callers[i].Events[:k], c.Callers[i].Events[k+1:]...)
				out = append(out, c)
			}
		}
	}
	for i := range w.Exits {
		c := jsonClone(w)
		c.Exits = append(c.Exits[:i], c.Exits[i+1:]...)
		out = append(out, c)
	}
	for i := range w.Plugins {
		if w.Plugins[i].Late {
			c := jsonClone(w)
			c.Plugins[i].Late = false
			out = append(out, c)
		}
		if w.Plugins[i].Mask != 0 {
			c := jsonClone(w)
			c.Plugins[i].Mask = 0
			out = append(out, c)
		}
	}
	return out
}

func init() {
	register(&Property{
		ID:     "C06",
		Gen:    c06Gen,
		New:    func() any { return &C06W{} },
		Run:    c06Run,
		Shrink: c06Shrink,
		Confs: func(tier string) []Conf {
			if tier == "thorough" {
				return []Conf{{Name: "random", Weight: 3}, {Name: "deep", Weight: 1}, {Name: "masksweep", Grid: 1639}}
			}
			return []Conf{{Name: "random", Weight: 4}, {Name: "masksweep", Weight: 1}}
		},
		Components: h1Components,
		Rule: "random: 1-6 all-handler plugins with random indices (collisions allowed) and masks, some registering while 1-4 concurrent callers issue 1-5 random lifecycle calls each; " +
			"masksweep: every mask 0..8191 assigned to a plugin in a run that sends all 13 events. A run is non-trivial when at least one request reached two or more plugins; distinct = distinct event-log hash",
	})
	_ = sort.Strings
}

var h1Components = map[string]string{
	"pkg/adaptation (request processing, result merging, registration, sync)": "real",
	"pkg/stub":                                             "real",
	"pkg/net/multiplex, pkg/net":                           "real",
	"pkg/api generated ttRPC bindings":                     "real",
	"github.com/containerd/ttrpc v1.2.7":                   "real (sync import redirected to the simulator, nothing else changed)",
	"container runtime (store, SyncFn, UpdateFn, callers)": "harness",
	"plugin handlers":                                      "scripted harness code",
	"unix socket, clock, locks, map order":                 "simulated",
}
