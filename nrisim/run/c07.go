package run

import (
	"encoding/binary"
	"fmt"
	"math/rand"
	"strings"
	"testing"
	"time"

	"github.com/containerd/nri/pkg/api"
)

// C07 - failing plugins cannot stall, crash or corrupt a request; handler errors veto it.

type C07Plugin struct {
	Name string `json:"name"`
	Idx  string `json:"idx"`
	// RegName, if set, is the name the plugin registers under (a second instance of plugin RegName)
	RegName string `json:"reg_name,omitempty"`
}

type C07Fault struct {
	Victim int    `json:"victim"` // position in the plugin list (which is in index order)
	Kind   string `json:"kind"`   // hang | error | stop | kill | reset | cut-r2p | cut-p2r | garbage
	When   string `json:"when"`   // before | during | offset
	Off    int    `json:"off"`    // cut-*: bytes still delivered after the moment the fault is armed
	Data   []byte `json:"data,omitempty"`
	// ErrKind (kind error): flavour of the error value the handler returns (see ErrKinds)
	ErrKind string `json:"err_kind,omitempty"`
	// CloseAfter (kind error): the plugin's connection dies as soon as everything it has written after
	// the handler returned has been delivered to the runtime's end: the veto holds if (and only if) the
	// runtime's client got the error reply before it noticed the loss
	CloseAfter bool `json:"close_after,omitempty"`
}

type C07Req struct {
	Event string    `json:"event"`
	Fault *C07Fault `json:"fault,omitempty"`
	// Rush: the request is issued without waiting for the system to settle after the previous
	// one, so the asynchronous cleanup of a plugin dropped there races with it.
	Rush bool `json:"rush,omitempty"`
	// Upd: this plugin (position) issues an unsolicited UpdateContainers once the request is under way:
	// it is then parked inside the runtime, behind the request, when the fault strikes
	Upd *int `json:"upd,omitempty"`
	// Also: a second plugin (position) whose connection is killed before the request, so that two
	// plugins are found dead in the same request.
	Also *int `json:"also,omitempty"`
}

type C07W struct {
	TreqMs  int         `json:"treq_ms"`
	Plugins []C07Plugin `json:"plugins"`
	Reqs    []C07Req    `json:"reqs"`
	Grid    bool        `json:"grid,omitempty"` // enumerated case: deterministic base schedule, exact status
}

var c07Events = []string{"CreateContainer", "UpdateContainer", "StopContainer", "UpdatePodSandbox", "StartContainer", "RunPodSandbox", "RemoveContainer", "PostCreateContainer"}

const (
	c07GridOffsets = 260
	c07GridTypes   = 6
	c07GridVictims = 3
)

func c07Gen(rng *rand.Rand, conf string, idx int) any {
	names := []string{"ann", "bob", "cyd", "dan", "eve"}
	if conf == "grid" {
		// idx -> (off, dir, victim, type)
		off := idx % c07GridOffsets
		idx /= c07GridOffsets
		dir := idx % 2
		idx /= 2
		victim := idx % c07GridVictims
		idx /= c07GridVictims
		typ := idx % c07GridTypes
		w := &C07W{TreqMs: 500, Grid: true}
		for k := 0; k < 3; k++ {
			w.Plugins = append(w.Plugins, C07Plugin{Name: names[k], Idx: fmt.Sprintf("%02d", 10*(k+1))})
		}
		kind := "cut-r2p"
		if dir == 1 {
			kind = "cut-p2r"
		}
		w.Reqs = []C07Req{{Event: c07Events[typ], Fault: &C07Fault{Victim: victim, Kind: kind, When: "offset", Off: off}}, {Event: c07Events[typ]}, {Event: "CreateContainer"}}
		return w
	}
	w := &C07W{TreqMs: []int{200, 500, 2000}[rng.Intn(3)]}
	n := 1 + rng.Intn(5)
	for k := 0; k < n; k++ {
		w.Plugins = append(w.Plugins, C07Plugin{Name: names[k], Idx: fmt.Sprintf("%02d", 10*(k+1)+rng.Intn(10))})
	}
	nreq := 1 + rng.Intn(5)
	if conf == "deep" {
		conf = "faults"
		nreq = 5 + rng.Intn(6)
	}
	alive := n
	for i := 0; i < nreq; i++ {
		rq := C07Req{Event: pick(rng, c07Events)}
		if conf == "faults" && rng.Intn(3) != 0 && alive > 0 {
			f := &C07Fault{Victim: rng.Intn(n)}
			f.Kind = pick(rng, []string{"hang", "error", "stop", "kill", "reset", "cut-r2p", "cut-p2r", "garbage", "hang", "error", "partial-r2p"})
			f.When = pick(rng, []string{"during", "during", "before"})
			if f.Kind == "hang" || f.Kind == "error" {
				f.When = "during"
			}
			if f.Kind == "error" {
				f.ErrKind = pick(rng, ErrKinds)
				if rng.Intn(3) == 0 {
					f.ErrKind = pick(rng, []string{"", "status:8", "status:14", "wrapped-deadline"}) // flavours whose text names the request
					f.CloseAfter = true
				}
			}
			if strings.HasPrefix(f.Kind, "cut") && f.When == "during" {
				f.Off = rng.Intn(200)
				if rng.Intn(3) == 0 {
					f.Off = 0
				}
			}
			if f.Kind == "garbage" {
				f.Data = c07Garbage(rng)
			}
			if f.Kind == "partial-r2p" {
				// the runtime's write that crosses this many further bytes is partial and fails (the plugin
				// died while the runtime was writing to it)
				f.When, f.Off = "before", 1+rng.Intn(160)
			}
			rq.Fault = f
		} else if conf == "healthy" && rng.Intn(4) == 0 {
			rq.Fault = &C07Fault{Victim: rng.Intn(n), Kind: "error", When: "during", ErrKind: pick(rng, ErrKinds)}
		}
		if conf == "faults" && rq.Fault != nil && n >= 2 && rng.Intn(4) == 0 {
			v := rng.Intn(n)
			if v != rq.Fault.Victim {
				rq.Also = &v
			}
		}
		if i > 0 && conf != "healthy" && rq.Also == nil && (rq.Fault == nil || rq.Fault.When == "during") && rng.Intn(3) == 0 {
			rq.Rush = true
		}
		if conf == "faults" && rq.Fault != nil && rng.Intn(5) == 0 {
			u := rq.Fault.Victim
			if rng.Intn(4) == 0 {
				u = rng.Intn(n)
			}
			rq.Upd = &u
		}
		w.Reqs = append(w.Reqs, rq)
	}
	return w
}

// a well-formed mux frame for the plugin-service connection carrying a well-formed ttRPC
// header with random stream id / type / flags and a short random payload
func c07Garbage(rng *rand.Rand) []byte {
	l := rng.Intn(24)
	msg := make([]byte, 10+l)
	binary.BigEndian.PutUint32(msg[0:4], uint32(l))
	binary.BigEndian.PutUint32(msg[4:8], uint32(1+rng.Intn(12)))
	msg[8] = byte(rng.Intn(5))
	msg[9] = byte(rng.Intn(4))
	rng.Read(msg[10:])
	if rng.Intn(4) == 0 { // truncated header
		msg = msg[:1+rng.Intn(9)]
	}
	frame := make([]byte, 8+len(msg))
	binary.BigEndian.PutUint32(frame[0:4], 1)
	binary.BigEndian.PutUint32(frame[4:8], uint32(len(msg)))
	copy(frame[8:], msg)
	return frame
}

type c07Out struct {
	Resp    any
	Err     error
	Elapsed time.Duration
	E0, E1  int // handler entries recorded before / after
	Done    bool
	Active  int // plugins believed active at invocation
}

const (
	stCounted  = 0
	stExcluded = 1
	stMaybe    = 2
)

type c07Transcript struct {
	r2p, p2r [][]int // [request][plugin] bytes written at the return of the request; index 0 = before the first request
}

func c07Run(t *testing.T, wl any, sc SchedCfg) *Result {
	w := wl.(*C07W)
	var base *c07Transcript
	if w.Grid {
		// healthy base run under the same deterministic schedule: records where each request and
		// reply ends in each connection's byte stream
		hw := jsonClone(w)
		for i := range hw.Reqs {
			hw.Reqs[i].Fault = nil
		}
		tr := &c07Transcript{}
		r0 := c07Exec(t, hw, SchedCfg{Seed: sc.Seed, Strategy: "drain"}, nil, tr)
		if len(r0.Violations) > 0 {
			r0.Violations = append(r0.Violations, Violation{Oracle: "C07.base-run", Msg: "the healthy base run of a grid case reported the above"})
			return r0
		}
		base = tr
		sc = SchedCfg{Seed: sc.Seed, Strategy: "drain", Replay: sc.Replay}
	}
	return c07Exec(t, w, sc, base, nil)
}

func c07Exec(t *testing.T, w *C07W, sc SchedCfg, base *c07Transcript, rec *c07Transcript) *Result {
	return Bubble(t, sc, func(e *Env) {
		res := e.Res
		treq := time.Duration(w.TreqMs) * time.Millisecond
		e.S.IdleLimit = int((treq*time.Duration(len(w.Plugins)+2))/e.S.Quantum) + 200
		if w.Grid {
			e.S.NoChunk = true
		}
		h := NewH1(e, treq, hugeTimeout)
		n := len(w.Plugins)
		plugs := make([]*Plug, n)
		// per (plugin, request) scripted behaviour
		behave := map[string]string{}
		errKind := map[string]string{}
		for i, rq := range w.Reqs {
			if f := rq.Fault; f != nil && (f.Kind == "hang" || f.Kind == "error") {
				behave[fmt.Sprintf("%s/q%d", w.Plugins[f.Victim].Name, i)] = f.Kind
				errKind[fmt.Sprintf("%s/q%d", w.Plugins[f.Victim].Name, i)] = f.ErrKind
			}
		}
		h.Script = func(plugin, rpc, token string) *Reply {
			r := tokenReply(plugin, rpc, token)
			switch behave[plugin+"/"+token] {
			case "hang":
				r.Hang = true
			case "error":
				r.Err = "veto-" + plugin + "-" + token
				r.ErrKind = errKind[plugin+"/"+token]
			}
			return r
		}
		for k, pw := range w.Plugins {
			plugs[k] = h.AddPlugin(pw.Name, pw.Idx, 0)
			h.StartTask(plugs[k])
		}
		if err := e.RunUntil(200000, func() bool { return e.TasksDone() && h.L.AcceptCount() >= n+1 }); err != nil {
			res.Violate("C07.setup", "registration of %d healthy plugins: %v; pending %v", n, err, e.S.Pending())
			return
		}
		for _, p := range plugs {
			if p.StartErr != nil {
				res.Violate("C07.setup", "plugin %s failed to start: %v", p.Name, p.StartErr)
				return
			}
		}
		outs := make([]*c07Out, len(w.Reqs))
		cur := -1 // request in flight
		inflight := false
		fired := map[int]int{}    // request index of the fault -> request index in flight when it fired (-1: between)
		phase := map[int]string{} // request index -> "not-entered" | "entered" | "consumed" at the moment a during-fault fired
		snap := func() ([]int, []int) {
			a, b := make([]int, n), make([]int, n)
			for k, p := range plugs {
				a[k] = h.runtimeEnd(p).WrittenBytes()
				b[k] = p.Conn.WrittenBytes()
			}
			return a, b
		}
		applyFault := func(i int, f *C07Fault) {
			p := plugs[f.Victim]
			switch f.Kind {
			case "stop":
				go func() { e.S.SetGName("fault-stop"); p.Stub.Stop() }()
			case "kill":
				p.Conn.Kill(false)
			case "reset":
				p.Conn.Kill(true)
			case "cut-r2p":
				re := h.runtimeEnd(p)
				re.CutWrite(re.DeliveredBytes()+f.Off, false)
			case "cut-p2r":
				p.Conn.CutWrite(p.Conn.DeliveredBytes()+f.Off, false)
			case "garbage":
				p.Conn.Write(f.Data)
			case "partial-r2p":
				re := h.runtimeEnd(p)
				re.FailWriteAt(re.WrittenBytes() + f.Off)
			}
			e.S.Probe("C07.fault." + f.Kind + "." + f.When)
		}
		started := make([]bool, len(w.Reqs))
		for i, rq := range w.Reqs {
			if rq.Upd == nil {
				continue
			}
			i, p := i, plugs[*rq.Upd]
			e.Task(fmt.Sprintf("unsolicited-update-q%d", i), func() {
				e.S.ParkOwned(fmt.Sprintf("upd-gate:q%d", i), "upd:"+p.Name, func() bool { return started[i] })
				u := &api.ContainerUpdate{ContainerId: fmt.Sprintf("unsolicited-%d", i)}
				u.SetLinuxCPUShares(7)
				p.Stub.UpdateContainers([]*api.ContainerUpdate{u}) // whatever it returns; it must return
				e.S.Probe("C07.unsolicited-update-issued-during-a-request")
			})
		}
		e.Task("caller", func() {
			for i, rq := range w.Reqs {
				if !rq.Rush {
					e.S.Settle("caller")
				} else {
					e.S.Probe("C07.request-rushed-after-the-previous-one")
				}
				if rec != nil {
					a, b := snap()
					rec.r2p, rec.p2r = append(rec.r2p, a), append(rec.p2r, b)
				}
				if rq.Also != nil {
					plugs[*rq.Also].Conn.Kill(false)
					e.S.Probe("C07.second-plugin-killed-before-the-same-request")
					e.S.Settle("caller")
				}
				f := rq.Fault
				if f != nil && (f.When == "before" || f.When == "offset") {
					applyFault(i, f)
					fired[i] = -1
					if f.When == "before" {
						e.S.Settle("caller")
					}
				}
				id := fmt.Sprintf("q%d", i)
				pod := &api.PodSandbox{Id: "pod-" + id, Name: "pod"}
				ctr := &api.Container{Id: id, PodSandboxId: pod.Id, Name: "ctr"}
				if IsPodEvent(rq.Event) {
					pod.Id, ctr = id, nil
				}
				o := &c07Out{E0: len(h.entriesCopy())}
				outs[i] = o
				cur, inflight = i, true
				started[i] = true
				if f != nil && f.When == "during" && f.Kind != "hang" && f.Kind != "error" {
					i, f := i, f
					e.S.Add(&simItem{Key: fmt.Sprintf("fault:%s:%s:%s", f.Kind, w.Plugins[f.Victim].Name, id), Owner: "fault",
						Ready: func() bool {
							_, done := fired[i]
							return !done && cur == i && inflight
						},
						Fire: func(int) {
							fired[i] = i
							// where is the victim in this request at the moment of the fault? (the scheduler
							// goroutine runs this at a quiescent point, so the history is stable)
							phase[i] = c07Phase(h, w, f.Victim, id)
							applyFault(i, f)
						}})
				}
				if f != nil && f.Kind == "error" && f.CloseAfter {
					i, f := i, f
					vp := plugs[f.Victim]
					var ven *Entry
					e.S.Add(&simItem{Key: fmt.Sprintf("fault:close-after-reply:%s:%s", w.Plugins[f.Victim].Name, id), Owner: "fault",
						Ready: func() bool {
							if _, done := fired[i]; done || cur != i || !inflight {
								return false
							}
							if ven == nil {
								ven = h.findEntry(vp.Name, id)
							}
							return ven != nil && h.entryExited(ven) && vp.Conn.DeliveredBytes() == vp.Conn.WrittenBytes()
						},
						Fire: func(int) {
							fired[i] = i
							vp.Conn.Kill(false)
							e.S.Probe("C07.fault.error-then-connection-lost")
						}})
				}
				t0 := time.Now()
				o.Resp, o.Err = h.Call(rq.Event, pod, ctr, nil)
				o.Elapsed = time.Since(t0)
				inflight = false
				o.E1 = len(h.entriesCopy())
				o.Done = true
			}
			e.S.Settle("caller")
			if rec != nil {
				a, b := snap()
				rec.r2p, rec.p2r = append(rec.r2p, a), append(rec.p2r, b)
			}
		})
		err := e.RunUntil(400000, func() bool { return e.TasksDone() })
		if err != nil {
			for i, o := range outs {
				if o != nil && !o.Done {
					res.Violate("C07.deadlock", "request q%d (%s) never returned (%v after %v of simulated time); fault %s; pending %v", i, w.Reqs[i].Event, err,
						time.Duration(e.S.Stats.SimTime), faultStr(w, i), e.S.Pending())
					return
				}
			}
			res.Violate("C07.deadlock", "the run did not finish: %v; pending %v", err, e.S.Pending())
			return
		}
		c07Oracle(res, w, h, plugs, outs, fired, phase, base, treq)
	})
}

func faultStr(w *C07W, i int) string {
	f := w.Reqs[i].Fault
	if f == nil {
		return "none"
	}
	return fmt.Sprintf("%s/%s on %s off=%d", f.Kind, f.When, w.Plugins[f.Victim].Name, f.Off)
}

// tokenReply is the scripted healthy contribution of a plugin to a request: a value that
// names the plugin and the request so that every value in a result is attributable.
func tokenReply(plugin, rpc, token string) *Reply {
	switch rpc {
	case "CreateContainer":
		a := &api.ContainerAdjustment{}
		a.AddAnnotation("tok-"+plugin, token)
		return &Reply{Adjust: a}
	case "UpdateContainer", "StopContainer":
		u := &api.ContainerUpdate{ContainerId: "t-" + plugin + "-" + token}
		u.SetLinuxMemoryLimit(4096)
		return &Reply{Updates: []*api.ContainerUpdate{u}}
	}
	return &Reply{}
}

// contributions extracts plugin -> present from a response built from tokenReply values;
// bad lists anything that is not an intact token of this request.
func contributions(resp any, id string) (got map[string]bool, bad []string) {
	got = map[string]bool{}
	tok := func(u *api.ContainerUpdate) {
		if u == nil || u.ContainerId == id {
			return
		}
		parts := strings.SplitN(u.GetContainerId(), "-", 3)
		if len(parts) != 3 || parts[0] != "t" || parts[2] != id || u.GetLinux().GetResources().GetMemory().GetLimit().GetValue() != 4096 {
			bad = append(bad, fmt.Sprintf("update %v", u))
			return
		}
		if got[parts[1]] {
			bad = append(bad, "duplicate update for "+u.ContainerId)
		}
		got[parts[1]] = true
	}
	switch r := resp.(type) {
	case *api.CreateContainerResponse:
		if r == nil {
			return nil, nil
		}
		for k, v := range r.GetAdjust().GetAnnotations() {
			if !strings.HasPrefix(k, "tok-") || v != id {
				bad = append(bad, fmt.Sprintf("annotation %q=%q", k, v))
				continue
			}
			got[strings.TrimPrefix(k, "tok-")] = true
		}
	case *api.UpdateContainerResponse:
		if r == nil {
			return nil, nil
		}
		for _, u := range r.GetUpdate() {
			tok(u)
		}
	case *api.StopContainerResponse:
		if r == nil {
			return nil, nil
		}
		for _, u := range r.GetUpdate() {
			tok(u)
		}
	default:
		return nil, nil
	}
	return got, bad
}

func isNilResp(resp any) bool {
	switch r := resp.(type) {
	case nil:
		return true
	case *api.CreateContainerResponse:
		return r == nil
	case *api.UpdateContainerResponse:
		return r == nil
	case *api.StopContainerResponse:
		return r == nil
	case *api.UpdatePodSandboxResponse:
		return r == nil
	}
	return false
}

// c07Phase tells how far the victim has got in request id: "not-entered" (its handler has not been
// entered), "consumed" (a later plugin's handler has already been entered for the same request, so
// the runtime has the victim's reply), or "entered" (in between).
func c07Phase(h *H1, w *C07W, victim int, id string) string {
	name := w.Plugins[victim].Name
	entered, later := false, false
	for _, en := range h.entriesCopy() {
		if en.Token != id {
			continue
		}
		if en.Plugin == name {
			entered = true
		}
		for k := victim + 1; k < len(w.Plugins); k++ {
			if en.Plugin == w.Plugins[k].Name {
				later = true
			}
		}
	}
	switch {
	case later:
		return "consumed"
	case entered:
		return "entered"
	}
	// not entered: certain to stay so only if part of the request is still in flight (what has already
	// been delivered to the plugin's socket is still processed by the plugin)
	if p := h.Plugs[name]; p != nil {
		re := h.runtimeEnd(p)
		if re.DeliveredBytes() < re.WrittenBytes() {
			return "not-entered"
		}
	}
	return "entered"
}

func c07Oracle(res *Result, w *C07W, h *H1, plugs []*Plug, outs []*c07Out, fired map[int]int, phase map[int]string, base *c07Transcript, treq time.Duration) {
	n := len(w.Plugins)
	entries := h.entriesCopy()
	// status[p] per request
	diedAt := make([]int, n)
	diedOf := make([]string, n) // fault kind that dropped the plugin
	dead := make([]bool, n)     // excluded from now on
	unsure := make([]bool, n)   // garbage was injected: the connection may or may not survive
	nontrivial := false
	for i, rq := range w.Reqs {
		o := outs[i]
		id := fmt.Sprintf("q%d", i)
		status := make([]int, n)
		noEntry := make([]bool, n) // the handler must not be entered
		for k := range status {
			if dead[k] {
				status[k], noEntry[k] = stExcluded, true
				rushed := rq.Rush
				for j := diedAt[k] + 1; j < i && rushed; j++ {
					// a plugin stopping itself disconnects when its Stop gets to run: with no settle
					// since, that may still lie ahead. A killed connection is dead at once.
					rushed = w.Reqs[j].Rush && diedOf[k] == "stop"
				}
				if rushed && diedOf[k] != "hang" {
					// its loss may not have happened / been noticed yet: either outcome, and it may
					// still be entered
					status[k], noEntry[k] = stMaybe, false
				}
				// (a plugin that timed out was dropped by the runtime itself before that request returned:
				// however soon the next request follows, it gets nothing more)
			} else if unsure[k] {
				status[k] = stMaybe
			}
		}
		if rq.Also != nil && !dead[*rq.Also] {
			status[*rq.Also], noEntry[*rq.Also] = stExcluded, true
		}
		f := rq.Fault
		veto := -1
		anyOutcome := false
		alive := 0
		for k := range dead {
			if !dead[k] {
				alive++
			}
		}
		if f != nil {
			v := f.Victim
			at, didFire := fired[i]
			switch {
			case dead[v]:
				// fault on an already dropped plugin: nothing new - unless the request was rushed and the
				// plugin may still take part: its scripted error may then veto the request
				if status[v] == stMaybe && f.Kind == "error" {
					anyOutcome = true
				}
			case f.Kind == "hang":
				status[v] = stExcluded
				nontrivial = true
				res.Probe("C07.fault.hang.during")
			case f.Kind == "error":
				res.Probe("C07.fault.error.during")
				if !unsure[v] {
					veto = v
				} else {
					anyOutcome = true
				}
				if _, lost := fired[i]; f.CloseAfter && lost && veto == v {
					// the connection was lost right after the reply: the veto stands if the runtime's client
					// received the error reply; if the reply was lost with the connection the plugin just failed
					if h.SawClientStatus("veto-" + w.Plugins[v].Name + "-" + id) {
						res.Probe("C07.veto-received-then-connection-lost")
					} else {
						veto, anyOutcome = -1, true
						status[v] = stMaybe
					}
				}
				nontrivial = true
			case f.Kind == "partial-r2p":
				status[v] = stMaybe
				nontrivial = true
			case f.Kind == "garbage" && didFire:
				status[v] = stMaybe
				anyOutcome = true // an undecodable but well-framed reply is outside the statement's fault list
				nontrivial = true
			case f.When == "before":
				status[v], noEntry[v] = stExcluded, true
				nontrivial = true
			case f.When == "during" && didFire && at == i:
				status[v] = stMaybe
				nontrivial = true
				// peer death is instantaneous in both directions, so two of the three phases are exact:
				// a reply the runtime has already moved on from must count; a request that had not
				// reached the handler never will
				if (f.Kind == "kill" || f.Kind == "reset") && !unsure[v] {
					switch phase[i] {
					case "consumed":
						status[v] = stCounted
						res.Probe("C07.during-fault-after-reply-consumed")
					case "not-entered":
						status[v], noEntry[v] = stExcluded, true
						res.Probe("C07.during-fault-before-handler-entered")
					}
				}
			case f.When == "offset":
				nontrivial = true
				// exact status from the healthy transcript (grid cases only)
			}
		}
		if w.Grid && base != nil {
			// the only fault of a grid case is the cut armed before request 0
			f0 := w.Reqs[0].Fault
			v := f0.Victim
			var start, end, k int
			if f0.Kind == "cut-p2r" {
				k = base.p2r[0][v] + f0.Off
				start, end = base.p2r[i][v], base.p2r[i+1][v]
				switch {
				case k >= end:
					status[v], noEntry[v] = stCounted, false
				case k > start:
					status[v], noEntry[v] = stExcluded, false // request delivered, reply cut
				case i > 0 && k == start && k > base.p2r[i-1][v]:
					// the cut fell exactly at the end of the previous reply: end of stream follows it
					status[v], noEntry[v] = stExcluded, true
				case k == start && i == 0:
					status[v], noEntry[v] = stExcluded, true
				default:
					status[v], noEntry[v] = stExcluded, true
				}
			} else {
				k = base.r2p[0][v] + f0.Off
				start, end = base.r2p[i][v], base.r2p[i+1][v]
				switch {
				case k > end:
					status[v], noEntry[v] = stCounted, false
				case k == end:
					status[v], noEntry[v] = stMaybe, false // whole request delivered, end of stream races with the reply
				case k >= start:
					status[v], noEntry[v] = stExcluded, true // request incomplete
				default:
					status[v], noEntry[v] = stExcluded, true
				}
			}
			if status[v] != stCounted {
				res.Probe(fmt.Sprintf("C07.grid.%s.req%d.status%d", f0.Kind, i, status[v]))
			}
		}
		if !o.Done {
			res.Violate("C07.deadlock", "request %s never returned", id)
			return
		}
		// (a) bounded completion
		bound := time.Duration(alive)*treq + 100*time.Millisecond + time.Duration(n)*20*time.Millisecond
		if o.Elapsed > bound {
			res.Violate("C07.bounded-completion", "request %s (%s) took %v of simulated time, bound %v = %d active plugins x request timeout %v + slack; fault %s", id, rq.Event, o.Elapsed, bound, alive, treq, faultStr(w, i))
		}
		// handler entries of this request
		invoked := map[string]int{}
		var order []string
		for _, en := range entries[o.E0:o.E1] {
			if en.Token == id {
				invoked[en.Plugin]++
				order = append(order, en.Plugin)
			}
		}
		// invocation order within the request is index order, also after plugins were dropped
		var healthyOrder []string
		idxOf := map[string]string{}
		for k, p := range w.Plugins {
			idxOf[p.Name] = p.Idx
			_ = k
		}
		for _, name := range order {
			for k, p := range w.Plugins {
				if p.Name == name && status[k] == stCounted {
					healthyOrder = append(healthyOrder, name)
				}
			}
		}
		for k := 1; k < len(healthyOrder); k++ {
			if idxOf[healthyOrder[k-1]] > idxOf[healthyOrder[k]] {
				res.Violate("C07.index-order", "request %s (%s): surviving plugins were invoked in order %v, not by index (%s-%s before %s-%s)", id, rq.Event, healthyOrder,
					idxOf[healthyOrder[k-1]], healthyOrder[k-1], idxOf[healthyOrder[k]], healthyOrder[k])
			}
		}
		// (c) dropped plugins receive nothing more
		for k, p := range w.Plugins {
			if noEntry[k] && invoked[p.Name] > 0 {
				res.Violate("C07.no-further-requests", "request %s (%s): plugin %s had been dropped (or could not have received the request) but its handler was entered", id, rq.Event, p.Name)
			}
		}
		if veto >= 0 && invoked[w.Plugins[veto].Name] > 0 {
			// (e) veto
			want := ErrText(f.ErrKind, "veto-"+w.Plugins[veto].Name+"-"+id)
			if f.ErrKind != "" {
				res.Probe("C07.handler-error-flavour." + f.ErrKind)
			}
			if o.Err == nil || !strings.Contains(o.Err.Error(), want) {
				res.Violate("C07.veto", "request %s (%s): handler of %s returned error %q but the request returned err=%v", id, rq.Event, w.Plugins[veto].Name, want, o.Err)
			}
			if !isNilResp(o.Resp) {
				res.Violate("C07.veto", "request %s (%s): vetoed request returned a partial result %v", id, rq.Event, o.Resp)
			}
			for k := veto + 1; k < n; k++ {
				if w.Plugins[k].Idx > w.Plugins[veto].Idx && invoked[w.Plugins[k].Name] > 0 {
					res.Violate("C07.veto", "request %s (%s): plugin %s invoked after the veto of %s", id, rq.Event, w.Plugins[k].Name, w.Plugins[veto].Name)
				}
			}
		} else if veto >= 0 {
			// the erroring plugin was never reached: only possible if it was excluded
			if status[veto] == stCounted {
				res.Violate("C07.content", "request %s (%s): healthy plugin %s was not invoked", id, rq.Event, w.Plugins[veto].Name)
			}
		} else if o.Err != nil {
			if !anyOutcome {
				res.Violate("C07.request-fails", "request %s (%s) failed although no handler returned an error: %v; fault %s", id, rq.Event, o.Err, faultStr(w, i))
			}
		} else {
			// (b) content: counted plugins' contributions intact, excluded ones absent
			got, bad := contributions(o.Resp, id)
			for _, b := range bad {
				res.Violate("C07.content", "request %s (%s): result carries a value that is no plugin's intact contribution: %s", id, rq.Event, b)
			}
			for k, p := range w.Plugins {
				switch status[k] {
				case stCounted:
					if invoked[p.Name] != 1 {
						res.Violate("C07.content", "request %s (%s): surviving plugin %s was invoked %d times; fault %s", id, rq.Event, p.Name, invoked[p.Name], faultStr(w, i))
					} else if got != nil && !got[p.Name] {
						res.Violate("C07.content", "request %s (%s): contribution of surviving plugin %s is missing from the result; fault %s", id, rq.Event, p.Name, faultStr(w, i))
					}
				case stExcluded:
					if got != nil && got[p.Name] {
						res.Violate("C07.content", "request %s (%s): plugin %s failed before completing its reply but its contribution is in the result; fault %s", id, rq.Event, p.Name, faultStr(w, i))
					}
				}
			}
		}
		// bookkeeping for later requests
		if rq.Also != nil && !dead[*rq.Also] {
			dead[*rq.Also] = true
			diedAt[*rq.Also] = i
		}
		if f != nil && !dead[f.Victim] {
			_, didFire := fired[i]
			switch {
			case f.Kind == "hang":
				dead[f.Victim] = invoked[w.Plugins[f.Victim].Name] > 0 || dead[f.Victim]
				diedAt[f.Victim] = i
				diedOf[f.Victim] = "hang"
			case f.Kind == "error":
				if f.CloseAfter && didFire {
					dead[f.Victim] = true
					diedAt[f.Victim] = i
					diedOf[f.Victim] = "kill"
				}
			case f.Kind == "garbage":
				if didFire {
					unsure[f.Victim] = true
				}
			case f.Kind == "partial-r2p":
				unsure[f.Victim] = true
			case f.When == "offset":
			case strings.HasPrefix(f.Kind, "cut") && f.When == "during":
				// the cut may take effect in this or in a later request
				if didFire {
					unsure[f.Victim] = true
				}
			default:
				if didFire {
					dead[f.Victim] = true
					diedAt[f.Victim] = i
					diedOf[f.Victim] = f.Kind
				}
			}
		}
		if w.Grid && base != nil {
			v := w.Reqs[0].Fault.Victim
			if status[v] != stCounted {
				dead[v] = true
			}
		}
	}
	res.Nontrivial = nontrivial
	sum := []string{}
	for i, o := range outs {
		e := "ok"
		if o.Err != nil {
			e = "err"
		}
		sum = append(sum, fmt.Sprintf("q%d %s %s %v fault=%s", i, w.Reqs[i].Event, e, o.Elapsed, faultStr(w, i)))
	}
	res.Summary = sum
}

func c07Shrink(wl any) []any {
	w := wl.(*C07W)
	if w.Grid {
		return nil
	}
	var out []any
	for i := range w.Reqs {
		if len(w.Reqs) > 1 {
			c := jsonClone(w)
			c.Reqs = append(c.Reqs[:i], c.Reqs[i+1:]...)
			out = append(out, c)
		}
	}
	for k := len(w.Plugins) - 1; k >= 0; k-- {
		used := false
		for _, r := range w.Reqs {
			if r.Fault != nil && r.Fault.Victim == k {
				used = true
			}
			if r.Also != nil {
				used = true
			}
		}
		if !used && len(w.Plugins) > 1 {
			c := jsonClone(w)
			c.Plugins = append(c.Plugins[:k], c.Plugins[k+1:]...)
			for i := range c.Reqs {
				if c.Reqs[i].Fault != nil && c.Reqs[i].Fault.Victim > k {
					c.Reqs[i].Fault.Victim--
				}
			}
			out = append(out, c)
		}
	}
	for i := range w.Reqs {
		if w.Reqs[i].Also != nil {
			c := jsonClone(w)
			c.Reqs[i].Also = nil
			out = append(out, c)
		}
		if w.Reqs[i].Fault != nil && w.Reqs[i].Also == nil {
			c := jsonClone(w)
			c.Reqs[i].Fault = nil
			out = append(out, c)
		}
	}
	return out
}

func init() {
	register(&Property{
		ID:     "C07",
		Gen:    c07Gen,
		New:    func() any { return &C07W{} },
		Run:    c07Run,
		Shrink: c07Shrink,
		Confs: func(tier string) []Conf {
			if tier == "thorough" {
				return []Conf{{Name: "grid", Grid: c07GridOffsets * 2 * c07GridVictims * c07GridTypes}, {Name: "faults", Weight: 5}, {Name: "healthy", Weight: 1}, {Name: "deep", Weight: 2}}
			}
			return []Conf{{Name: "grid", Grid: c07GridOffsets * 2 * c07GridVictims}, {Name: "faults", Weight: 5}, {Name: "healthy", Weight: 1}}
		},
		Strategies: []string{"uniform", "uniform", "pct", "starve", "lag"},
		Components: h1Components,
		Rule: "grid: for request type x victim position (3 plugins) x direction, a cut after every byte offset 0..259 of the victim's connection counted from the start of the request, status of every plugin derived exactly from the healthy transcript of the same deterministic schedule; " +
			"faults: 1-5 plugins, 1-5 sequential requests of 8 types, each with an optional fault (handler hang / handler error / stub stop / peer death / reset / cut after n bytes in either direction / injected frame) before or during the request at a scheduler-chosen moment; " +
			"non-trivial = a fault actually hit a live plugin; distinct = distinct event-log hash",
	})
}
