package run

import (
	"fmt"
	"math/rand"
	"strings"
	"testing"
	"time"

	"nrisim/c15types"

	"github.com/containerd/nri/pkg/api"
	"github.com/containerd/ttrpc"
	"google.golang.org/protobuf/proto"
)

// C09 - synchronization delivers the runtime's complete state however it must be split.

type C09W struct {
	LimitKB int    `json:"limit_kb"` // transport message limit for this run; 0 = the shipped 4 MiB
	NPods   int    `json:"npods"`
	NCtrs   int    `json:"nctrs"`
	Dist    string `json:"dist"` // small | uniform | near-limit | one-over | big-pods
	Seed    int    `json:"seed"`
	Second  bool   `json:"second"`             // a second plugin registers afterwards
	Updates int    `json:"updates"`            // updates the plugin returns from Synchronize
	NoSync  bool   `json:"no_sync,omitempty"`  // the plugin has no Synchronize handler: the stub answers the (split) synchronization itself
	SyncErr string `json:"sync_err,omitempty"` // "-" or a flavour of ErrKinds: the plugin's Synchronize handler deliberately returns an error
	// SlowMs > 0: the run has a finite request timeout (TreqMs) and the plugin's Synchronize handler takes
	// SlowMs, longer than that, to answer. Nothing is demanded about the outcome beyond the general oracles
	// (one handler invocation at most, no activation after a failed synchronization, the runtime lives on).
	TreqMs int `json:"treq_ms,omitempty"`
	SlowMs int `json:"slow_ms,omitempty"`
	CutDir int `json:"cut_dir,omitempty"`
	CutOff int `json:"cut_off,omitempty"` // > 0: the plugin's connection is cut after this many bytes of the given direction (counted from the start of synchronization)
}

func c09Gen(rng *rand.Rand, conf string, idx int) any {
	w := &C09W{Seed: rng.Intn(1 << 20), Second: rng.Intn(3) == 0, Updates: rng.Intn(3)}
	w.LimitKB = pick(rng, []int{4, 8, 16, 64})
	if conf == "shipped" {
		w.LimitKB = 0
	}
	w.Dist = pick(rng, []string{"small", "small", "uniform", "near-limit", "one-over", "big-pods", "tail-heavy", "tail-heavy"})
	count := func() int {
		switch rng.Intn(6) {
		case 0:
			return 0
		case 1:
			return 1 + rng.Intn(3)
		case 2:
			return 1 + rng.Intn(12)
		case 3:
			return rng.Intn(120)
		case 4:
			return rng.Intn(600)
		}
		return rng.Intn(40)
	}
	w.NPods, w.NCtrs = count(), count()
	if conf == "shipped" {
		// keep the state within a few tens of MiB
		if w.NPods > 60 {
			w.NPods = rng.Intn(60)
		}
		if w.NCtrs > 200 {
			w.NCtrs = rng.Intn(200)
		}
		if rng.Intn(3) == 0 {
			w.Dist, w.NPods, w.NCtrs = "small", rng.Intn(4), 2000+rng.Intn(1500)
		}
	}
	if conf == "cut" {
		w.CutDir, w.CutOff = rng.Intn(2), 1+rng.Intn(40000)
	} else if rng.Intn(6) == 0 {
		w.NoSync, w.Updates = true, 0
	} else if rng.Intn(6) == 0 {
		// the handler refuses the state; "status:8" is what a plugin that cannot hold it would say
		w.SyncErr = pick(rng, append([]string{"status:8", "status:8", "status:8"}, ErrKinds...))
		if w.SyncErr == "" {
			w.SyncErr = "-"
		}
	} else if rng.Intn(6) == 0 {
		w.TreqMs = 500 + rng.Intn(2000)
		w.SlowMs = w.TreqMs*3/2 + rng.Intn(3*w.TreqMs)
	}
	return w
}

func (w *C09W) limit() int {
	if w.LimitKB == 0 {
		return 4 << 20
	}
	return w.LimitKB << 10
}

// c09State builds the runtime's pods and containers; padding makes the sizes.
func c09State(w *C09W) ([]*api.PodSandbox, []*api.Container, int) {
	rng := rand.New(rand.NewSource(int64(w.Seed)))
	lim := w.limit()
	size := func(pod bool, i int) int {
		switch w.Dist {
		case "small":
			return rng.Intn(lim/16 - 200)
		case "uniform":
			return rng.Intn(lim / 3)
		case "near-limit":
			if rng.Intn(4) == 0 {
				return lim - 400 - rng.Intn(lim/20)
			}
			return rng.Intn(lim / 40)
		case "one-over":
			if !pod && i == 0 {
				return lim + 100 + rng.Intn(lim/4)
			}
			return rng.Intn(lim / 40)
		case "tail-heavy":
			// small objects first, a few large ones at the very end of the runtime's order
			if !pod && i >= w.NCtrs-2-w.Seed%8 {
				return lim/6 + rng.Intn(lim/4)
			}
			return rng.Intn(lim / 200)
		case "big-pods":
			if pod {
				return lim/5 + rng.Intn(lim/5)
			}
			return rng.Intn(lim / 100)
		}
		return 10
	}
	pad := func(n int) string {
		if n < 0 {
			n = 0
		}
		return strings.Repeat("x", n)
	}
	var pods []*api.PodSandbox
	var ctrs []*api.Container
	maxObj := 0
	for i := 0; i < w.NPods; i++ {
		p := &api.PodSandbox{Id: fmt.Sprintf("pod%d", i), Name: "p", Annotations: map[string]string{"pad": pad(size(true, i))}}
		if s := proto.Size(p); s > maxObj {
			maxObj = s
		}
		pods = append(pods, p)
	}
	for i := 0; i < w.NCtrs; i++ {
		c := &api.Container{Id: fmt.Sprintf("ctr%d", i), PodSandboxId: "pod0", Env: []string{"PAD=" + pad(size(false, i))}}
		if s := proto.Size(c); s > maxObj {
			maxObj = s
		}
		ctrs = append(ctrs, c)
	}
	return pods, ctrs, maxObj
}

func c09Run(t *testing.T, wl any, sc SchedCfg) *Result {
	w := wl.(*C09W)
	old := ttrpc.VerifSetMessageLengthMax(w.limit())
	defer ttrpc.VerifSetMessageLengthMax(old)
	return Bubble(t, sc, func(e *Env) {
		res := e.Res
		e.S.IdleLimit = 100
		e.S.NoChunk = w.LimitKB == 0 // multi-megabyte segments: no need to split them byte-wise
		treq := hugeTimeout
		if w.SlowMs > 0 {
			treq = time.Duration(w.TreqMs) * time.Millisecond
		}
		if w.SlowMs > 0 {
			e.S.IdleLimit = int(time.Duration(w.SlowMs+w.TreqMs)*time.Millisecond/e.S.Quantum) + 300
		}
		h := NewH1(e, treq, hugeTimeout)
		pods, ctrs, maxObj := c09State(w)
		h.Pods, h.Ctrs = pods, ctrs
		lim := w.limit()
		regime := "large-objects"
		switch {
		case maxObj > lim:
			regime = "untransmissible"
		case maxObj <= lim/16:
			regime = "small-objects"
		}
		if w.CutOff > 0 {
			regime = "cut"
		}
		if w.SyncErr != "" {
			regime = "handler-error"
			kind := strings.TrimPrefix(w.SyncErr, "-")
			h.Script = func(plugin, rpc, token string) *Reply {
				if plugin == "syn" && rpc == "Synchronize" {
					return &Reply{Err: "cannot take this state", ErrKind: kind}
				}
				return nil
			}
		}
		if w.SlowMs > 0 {
			regime = "handler-slow"
			h.Script = func(plugin, rpc, token string) *Reply {
				if plugin == "syn" && rpc == "Synchronize" {
					return &Reply{SleepMs: w.SlowMs}
				}
				return nil
			}
		}
		res.Probe("C09.regime." + regime)
		var rec *c15types.Rec
		var p1 *Plug
		if w.NoSync {
			rec = &c15types.Rec{}
			// implements StartContainer only (bit 5 of the handler list), no Synchronize, no Configure
			p1 = h.AddCustomPlugin("syn", "10", c15types.New(1<<5, rec))
			res.Probe("C09.plugin-without-synchronize-handler")
		} else {
			p1 = h.AddPlugin("syn", "10", 0)
		}
		for k := 0; k < w.Updates; k++ {
			u := &api.ContainerUpdate{ContainerId: fmt.Sprintf("ctr%d", k)}
			u.SetLinuxCPUShares(uint64(100 + k))
			p1.SyncUpd = append(p1.SyncUpd, u)
		}
		if w.CutOff > 0 {
			if w.CutDir == 0 {
				h.runtimeEnd(p1).CutWrite(h.runtimeEnd(p1).DeliveredBytes()+400+w.CutOff, false)
			} else {
				p1.Conn.CutWrite(p1.Conn.DeliveredBytes()+200+w.CutOff, false)
			}
		}
		h.StartTask(p1)
		budget := 40*(w.NPods+w.NCtrs) + 20000
		err := e.RunUntil(budget, func() bool { return e.TasksDone() && h.L.AcceptCount() >= 2 })
		if err != nil {
			res.Violate("C09.terminates", "registration of a plugin against a runtime with %d pods and %d containers (largest object %d bytes, message limit %d, regime %s) did not finish within %d scheduler steps: %v; synchronization messages so far delivered %d bytes",
				w.NPods, w.NCtrs, maxObj, lim, regime, budget, err, h.runtimeEnd(p1).DeliveredBytes())
			return
		}
		var p2 *Plug
		if w.Second {
			p2 = h.AddPlugin("two", "20", 0)
			h.StartTask(p2)
			if err := e.RunUntil(budget, func() bool { return e.TasksDone() && h.L.AcceptCount() >= 3 }); err != nil {
				res.Violate("C09.later-plugin", "a second plugin could not register after the first one's synchronization (%s): %v", regime, err)
				return
			}
		}
		var merr error
		e.Task("marker", func() {
			_, merr = h.Call("StartContainer", &api.PodSandbox{Id: "mpod"}, &api.Container{Id: "marker", PodSandboxId: "mpod"}, nil)
		})
		if err := e.RunUntil(50000, func() bool { return e.TasksDone() }); err != nil || merr != nil {
			res.Violate("C09.runtime-alive", "marker request after synchronization (%s): %v / %v", regime, err, merr)
			return
		}
		// what happened?
		var syncs []*Entry
		marker := map[string]bool{}
		for _, en := range h.entriesCopy() {
			if en.Plugin == "syn" && en.RPC == "Synchronize" {
				syncs = append(syncs, en)
			}
			if en.RPC == "StartContainer" && en.Token == "marker" {
				marker[en.Plugin] = true
			}
		}
		if rec != nil {
			for _, c := range rec.Snapshot() {
				if c.Ctr.GetId() == "marker" {
					marker["syn"] = true
				}
			}
		}
		var cbErr string
		var cbUpd []*api.ContainerUpdate
		for _, ev := range h.SyncLog {
			// call #0 is the runtime's own start-up synchronization of pre-installed plugins (none here)
			if ev.Kind == "cb-return" && ev.N == 2 {
				cbErr, cbUpd = ev.Err, ev.Upd
			}
		}
		synced := false
		for _, ev := range h.SyncLog {
			if ev.Kind == "cb-return" && ev.N == 2 {
				synced = true
			}
		}
		if !synced {
			cbErr = "synchronization never started or never returned (registration failed before it)"
		}
		ok := cbErr == "" && marker["syn"]
		desc := fmt.Sprintf("%d pods, %d containers, largest object %d bytes, message limit %d, regime %s", w.NPods, w.NCtrs, maxObj, lim, regime)
		if len(syncs) > 1 {
			res.Violate("C09.once", "the plugin's Synchronize handler was invoked %d times (%s)", len(syncs), desc)
		}
		if cbErr == "" {
			// the runtime considers the plugin synchronized
			if w.NoSync {
				// nothing to compare: there is no handler
			} else if len(syncs) != 1 {
				res.Violate("C09.exact-state", "synchronization succeeded for the runtime but the plugin's handler was invoked %d times (%s)", len(syncs), desc)
			} else {
				s := syncs[0]
				if d := c09Diff(pods, ctrs, s.Pods, s.Ctrs); d != "" {
					res.Violate("C09.exact-state", "the plugin's Synchronize handler did not receive exactly the runtime's state: %s (%s)", d, desc)
				}
			}
			if !marker["syn"] && regime != "cut" { // with a planned cut the connection may die between synchronization and the event
				res.Violate("C09.activated", "synchronization succeeded but the plugin did not receive the following event (%s)", desc)
			}
			if len(cbUpd) != len(p1.SyncUpd) {
				res.Violate("C09.updates", "the plugin returned %d updates from Synchronize, the runtime's callback got %d (%s)", len(p1.SyncUpd), len(cbUpd), desc)
			} else {
				for i := range cbUpd {
					if !proto.Equal(cbUpd[i], p1.SyncUpd[i]) {
						res.Violate("C09.updates", "update %d returned from Synchronize arrived changed: %v vs %v", i, cbUpd[i], p1.SyncUpd[i])
					}
				}
			}
		} else {
			if marker["syn"] {
				res.Violate("C09.clean-failure", "synchronization failed (%s) but the plugin was activated and received the following event (%s)", cbErr, desc)
			}
		}
		switch regime {
		case "handler-error":
			if ok && len(syncs) > 0 {
				res.Violate("C09.clean-failure", "the plugin's Synchronize handler returned an error (%s), yet the plugin was activated (%s)", w.SyncErr, desc)
			}
		case "small-objects":
			if !ok {
				res.Violate("C09.must-succeed", "every object is at most 1/16 of the message limit, yet synchronization failed: %s (%s)", cbErr, desc)
			}
		case "untransmissible":
			if ok {
				res.Violate("C09.clean-failure", "an object exceeds the message limit, yet synchronization is reported successful (%s)", desc)
			}
		}
		// the second plugin faces the same state: it must register iff the state is transmissible
		// (either outcome in the large-objects regime), whatever happened to the first one
		sizeRegime := "large-objects"
		switch {
		case maxObj > lim:
			sizeRegime = "untransmissible"
		case maxObj <= lim/16:
			sizeRegime = "small-objects"
		}
		if p2 != nil && sizeRegime == "small-objects" && (!marker["two"] || p2.StartErr != nil) {
			res.Violate("C09.later-plugin", "the second plugin was not activated after the first one's synchronization (start: %v, got marker: %v) (%s)", p2.StartErr, marker["two"], desc)
		}
		if p2 != nil && sizeRegime == "untransmissible" && marker["two"] {
			res.Violate("C09.clean-failure", "an object exceeds the message limit, yet the second plugin was activated (%s)", desc)
		}
		msgs := 0
		if len(syncs) == 1 {
			msgs = 1
		}
		res.Nontrivial = maxObj*2 > 0 && (proto.Size(&api.SynchronizeRequest{Pods: pods, Containers: ctrs}) > lim || regime == "cut")
		if res.Nontrivial && ok {
			res.Probe("C09.split-sync-succeeded")
		}
		if !ok {
			res.Probe("C09.sync-failed-cleanly")
		}
		_ = msgs
		res.Summary = map[string]any{"state": desc, "outcome_ok": ok, "callback_error": cbErr}
	})
}

func c09Diff(pods []*api.PodSandbox, ctrs []*api.Container, gp []*api.PodSandbox, gc []*api.Container) string {
	if len(gp) != len(pods) {
		ids := []string{}
		for i, p := range gp {
			if i < 6 {
				ids = append(ids, p.GetId())
			}
		}
		return fmt.Sprintf("%d pods received, runtime has %d (first received: %v)", len(gp), len(pods), ids)
	}
	if len(gc) != len(ctrs) {
		ids := []string{}
		for i, c := range gc {
			if i < 6 {
				ids = append(ids, c.GetId())
			}
		}
		return fmt.Sprintf("%d containers received, runtime has %d (first received: %v)", len(gc), len(ctrs), ids)
	}
	for i := range pods {
		if !proto.Equal(pods[i], gp[i]) {
			return fmt.Sprintf("pod at position %d is %s, runtime's is %s", i, gp[i].GetId(), pods[i].GetId())
		}
	}
	for i := range ctrs {
		if !proto.Equal(ctrs[i], gc[i]) {
			return fmt.Sprintf("container at position %d is %s, runtime's is %s", i, gc[i].GetId(), ctrs[i].GetId())
		}
	}
	return ""
}

func c09Shrink(wl any) []any {
	w := wl.(*C09W)
	var out []any
	try := func(f func(c *C09W)) {
		c := jsonClone(w)
		f(c)
		out = append(out, c)
	}
	if w.Second {
		try(func(c *C09W) { c.Second = false })
	}
	if w.Updates > 0 {
		try(func(c *C09W) { c.Updates = 0 })
	}
	if w.NCtrs > 0 {
		try(func(c *C09W) { c.NCtrs /= 2 })
		try(func(c *C09W) { c.NCtrs-- })
	}
	if w.NPods > 0 {
		try(func(c *C09W) { c.NPods /= 2 })
		try(func(c *C09W) { c.NPods-- })
	}
	if w.CutOff > 0 {
		try(func(c *C09W) { c.CutOff = 0 })
	}
	return out
}

func init() {
	register(&Property{
		ID: "C09", Gen: c09Gen, New: func() any { return &C09W{} }, Run: c09Run, Shrink: c09Shrink,
		Confs: func(tier string) []Conf {
			return []Conf{{Name: "lowered", Weight: 30}, {Name: "cut", Weight: 6}, {Name: "shipped", Weight: 1}}
		},
		Strategies: []string{"uniform", "drain", "pct"},
		Components: h1Components,
		Rule: "one registering plugin (sometimes a second one afterwards) against a runtime with 0..600 pods and 0..600 containers (shipped-limit runs: up to 3500) whose sizes follow {all small, uniform, few just below the limit, one above the limit, big pods}; the transport's message limit is the shipped 4 MiB or a lowered value (4-64 KiB, a variable in the simulation copy of ttRPC; the NRI code reads the limit from the error value) so that chunk arithmetic is explored densely; conf cut: the connection is cut at a random offset during synchronization; " +
			"non-trivial = the state does not fit one message or a cut was planned; distinct = distinct event-log hash",
	})
}
