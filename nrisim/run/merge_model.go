package run

import (
	"fmt"
	"sort"
	"strconv"
	"strings"

	"github.com/containerd/nri/pkg/api"
)

// Reference model for the merge properties C01-C05, written from the property
// statements: an ownership ledger per request and target container, a container view
// updated with generator semantics, and a per-target collection of update fields.
// Everything is expressed over "items" with string values; nothing here looks at
// pkg/adaptation.

// MOp is one operation on one item.
//
//	kinds with a key : ann env mount dev cdi rlimit huge unified hook(<type>)
//	kinds without key: args cgpath oom and the scalar resource fields below
type MOp struct {
	Kind string `json:"k"`
	Key  string `json:"key,omitempty"`
	Act  string `json:"act"` // set | rm | rmset (removal marker followed by a set in the same reply)
	Val  int    `json:"v,omitempty"`
}

var memScalars = []string{"mem.limit", "mem.reservation", "mem.swap", "mem.kernel", "mem.kernel_tcp", "mem.swappiness", "mem.disable_oom", "mem.use_hierarchy"}
var cpuScalars = []string{"cpu.shares", "cpu.quota", "cpu.period", "cpu.rt_runtime", "cpu.rt_period", "cpu.cpus", "cpu.mems"}
var otherScalars = []string{"pids", "blockio", "rdt"}

func isScalar(kind string) bool {
	return strings.HasPrefix(kind, "mem.") || strings.HasPrefix(kind, "cpu.") || kind == "pids" || kind == "blockio" || kind == "rdt"
}

func isResource(kind string) bool { return isScalar(kind) || kind == "huge" || kind == "unified" }

func removable(kind string) bool {
	switch kind {
	case "ann", "env", "mount", "dev", "args":
		return true
	}
	return false
}

func (o MOp) item() string { return o.Kind + "|" + o.Key }

// valStr is the string form of the value an op writes (what extraction produces).
func valStr(kind string, v int) string {
	switch kind {
	case "mem.disable_oom", "mem.use_hierarchy":
		return "true"
	case "cpu.cpus", "cpu.mems":
		return fmt.Sprintf("0-%d", v)
	case "blockio", "rdt":
		if v%6 == 0 {
			return "" // an empty class name means "clear the class"
		}
		return fmt.Sprintf("cls%d", v)
	case "dev":
		return devDescNRI(mkDevice("", v))
	case "env":
		if v%4 == 0 {
			return fmt.Sprintf("-Dopt=v%d,k=%d", v, v) // a value with '=' in it
		}
		if v%9 == 0 {
			return "" // a variable that is set to the empty string
		}
		return fmt.Sprintf("v%d", v)
	case "ann":
		if v%7 == 0 {
			return "" // an annotation that is present with an empty value
		}
		return fmt.Sprintf("v%d", v)
	case "unified":
		return fmt.Sprintf("v%d", v)
	case "mount":
		m := mkMount("", v)
		return mountDesc(m.Source, m.Type, m.Options)
	case "hook":
		h := mkHook(v)
		return hookDesc(h.Path, h.Args, h.Env, h.Timeout.Get())
	case "rlimit":
		return rlimitDesc(uint64(v), uint64(v)/2)
	case "cgpath":
		return fmt.Sprintf("/cg/v%d", v)
	case "cdi":
		return "present"
	}
	return strconv.Itoa(v)
}

type MUpdate struct {
	Target string `json:"target"`
	Ignore bool   `json:"ignore,omitempty"`
	Ops    []MOp  `json:"ops,omitempty"`
	NoRes  bool   `json:"nores,omitempty"` // the update names the target but carries no resources at all
}

type MReply struct {
	Ops     []MOp     `json:"ops,omitempty"`
	Updates []MUpdate `json:"updates,omitempty"`
}

type MReq struct {
	Kind    string             `json:"kind"` // create | update | stop
	ID      string             `json:"id"`
	Orig    []MOp              `json:"orig,omitempty"` // original container content / requested resources, as "set" ops
	Replies map[string]*MReply `json:"replies,omitempty"`
}

// CState is a container (or a resource set) as items.
type CState struct {
	Ann      map[string]string
	Env      map[string]string
	Mounts   map[string]string
	Devs     map[string]string
	Args     []string
	OrigArgs []string // the runtime's original command line (what a bare removal marker reverts to)
	Hooks    map[string][]string
	Rlimits  []string
	Res      map[string]string
	Huge     map[string]string
	Unified  map[string]string
	CgPath   string
	Oom      string
	Anomal   []string // duplicates found while extracting from a real message
}

func newCState() *CState {
	return &CState{Ann: map[string]string{}, Env: map[string]string{}, Mounts: map[string]string{}, Devs: map[string]string{}, Hooks: map[string][]string{},
		Res: map[string]string{}, Huge: map[string]string{}, Unified: map[string]string{}}
}

func cpMap(m map[string]string) map[string]string {
	o := make(map[string]string, len(m))
	for k, v := range m {
		o[k] = v
	}
	return o
}

func (c *CState) clone() *CState {
	n := &CState{Ann: cpMap(c.Ann), Env: cpMap(c.Env), Mounts: cpMap(c.Mounts), Devs: cpMap(c.Devs), Args: append([]string(nil), c.Args...), OrigArgs: c.OrigArgs,
		Hooks: map[string][]string{}, Rlimits: append([]string(nil), c.Rlimits...), Res: cpMap(c.Res), Huge: cpMap(c.Huge), Unified: cpMap(c.Unified), CgPath: c.CgPath, Oom: c.Oom}
	for k, v := range c.Hooks {
		n.Hooks[k] = append([]string(nil), v...)
	}
	return n
}

func argsOf(v int) []string { return []string{"/bin/v" + strconv.Itoa(v), "arg" + strconv.Itoa(v)} }

// set applies a "set" with generator semantics (replace by key, append for hooks/rlimits).
func (c *CState) set(o MOp) {
	v := valStr(o.Kind, o.Val)
	switch o.Kind {
	case "ann":
		c.Ann[o.Key] = v
	case "env":
		c.Env[o.Key] = v
	case "mount":
		c.Mounts[o.Key] = v
	case "dev":
		c.Devs[o.Key] = v
	case "args":
		c.Args = argsOf(o.Val)
	case "hook":
		c.Hooks[o.Key] = append(c.Hooks[o.Key], v)
	case "rlimit":
		c.Rlimits = append(c.Rlimits, o.Key+"="+v)
	case "huge":
		c.Huge[o.Key] = v
	case "unified":
		c.Unified[o.Key] = v
	case "cgpath":
		c.CgPath = v
	case "oom":
		c.Oom = v
	case "cdi":
	default:
		c.Res[o.Kind] = v
	}
}

func (c *CState) remove(o MOp) {
	switch o.Kind {
	case "ann":
		delete(c.Ann, o.Key)
	case "env":
		delete(c.Env, o.Key)
	case "mount":
		delete(c.Mounts, o.Key)
	case "dev":
		delete(c.Devs, o.Key)
	}
}

func diffMap(what string, want, got map[string]string, out *[]string) {
	for _, k := range sortedKeys(want) {
		if g, ok := got[k]; !ok {
			*out = append(*out, fmt.Sprintf("%s %q: want %q, missing", what, k, want[k]))
		} else if g != want[k] {
			*out = append(*out, fmt.Sprintf("%s %q: want %q, got %q", what, k, want[k], g))
		}
	}
	for _, k := range sortedKeys(got) {
		if _, ok := want[k]; !ok {
			*out = append(*out, fmt.Sprintf("%s %q: unexpected %q", what, k, got[k]))
		}
	}
}

func diffList(what string, want, got []string, out *[]string) {
	if strings.Join(want, "\x00") != strings.Join(got, "\x00") {
		*out = append(*out, fmt.Sprintf("%s: want %v, got %v", what, want, got))
	}
}

// diff lists the differences between an expected and an observed container state.
func (c *CState) diff(got *CState, resourcesOnly bool) []string {
	var out []string
	if !resourcesOnly {
		diffMap("annotation", c.Ann, got.Ann, &out)
		diffMap("env", c.Env, got.Env, &out)
		diffMap("mount", c.Mounts, got.Mounts, &out)
		diffMap("device", c.Devs, got.Devs, &out)
		diffList("args", c.Args, got.Args, &out)
		for _, k := range []string{"prestart", "poststart", "poststop", "createruntime", "createcontainer", "startcontainer"} {
			diffList("hooks."+k, c.Hooks[k], got.Hooks[k], &out)
		}
		diffList("rlimits", c.Rlimits, got.Rlimits, &out)
		if c.CgPath != got.CgPath {
			out = append(out, fmt.Sprintf("cgroups path: want %q, got %q", c.CgPath, got.CgPath))
		}
		if c.Oom != got.Oom {
			out = append(out, fmt.Sprintf("oom score adj: want %q, got %q", c.Oom, got.Oom))
		}
	}
	diffMap("resource", c.Res, got.Res, &out)
	diffMap("hugepage limit", c.Huge, got.Huge, &out)
	diffMap("unified", c.Unified, got.Unified, &out)
	out = append(out, got.Anomal...)
	return out
}

// ---- extraction from real messages ----------------------------------------------------

func extractResources(r *api.LinuxResources, c *CState) {
	if r == nil {
		return
	}
	if m := r.Memory; m != nil {
		if m.Limit != nil {
			c.Res["mem.limit"] = strconv.FormatInt(m.Limit.Value, 10)
		}
		if m.Reservation != nil {
			c.Res["mem.reservation"] = strconv.FormatInt(m.Reservation.Value, 10)
		}
		if m.Swap != nil {
			c.Res["mem.swap"] = strconv.FormatInt(m.Swap.Value, 10)
		}
		if m.Kernel != nil {
			c.Res["mem.kernel"] = strconv.FormatInt(m.Kernel.Value, 10)
		}
		if m.KernelTcp != nil {
			c.Res["mem.kernel_tcp"] = strconv.FormatInt(m.KernelTcp.Value, 10)
		}
		if m.Swappiness != nil {
			c.Res["mem.swappiness"] = strconv.FormatUint(m.Swappiness.Value, 10)
		}
		if m.DisableOomKiller != nil {
			c.Res["mem.disable_oom"] = strconv.FormatBool(m.DisableOomKiller.Value)
		}
		if m.UseHierarchy != nil {
			c.Res["mem.use_hierarchy"] = strconv.FormatBool(m.UseHierarchy.Value)
		}
	}
	if p := r.Cpu; p != nil {
		if p.Shares != nil {
			c.Res["cpu.shares"] = strconv.FormatUint(p.Shares.Value, 10)
		}
		if p.Quota != nil {
			c.Res["cpu.quota"] = strconv.FormatInt(p.Quota.Value, 10)
		}
		if p.Period != nil {
			c.Res["cpu.period"] = strconv.FormatUint(p.Period.Value, 10)
		}
		if p.RealtimeRuntime != nil {
			c.Res["cpu.rt_runtime"] = strconv.FormatInt(p.RealtimeRuntime.Value, 10)
		}
		if p.RealtimePeriod != nil {
			c.Res["cpu.rt_period"] = strconv.FormatUint(p.RealtimePeriod.Value, 10)
		}
		if p.Cpus != "" {
			c.Res["cpu.cpus"] = p.Cpus
		}
		if p.Mems != "" {
			c.Res["cpu.mems"] = p.Mems
		}
	}
	if r.Pids != nil {
		c.Res["pids"] = strconv.FormatInt(r.Pids.Limit, 10)
	}
	if r.BlockioClass != nil {
		c.Res["blockio"] = r.BlockioClass.Value
	}
	if r.RdtClass != nil {
		c.Res["rdt"] = r.RdtClass.Value
	}
	for _, h := range r.HugepageLimits {
		if _, dup := c.Huge[h.PageSize]; dup {
			c.Anomal = append(c.Anomal, fmt.Sprintf("hugepage size %q listed more than once", h.PageSize))
		}
		c.Huge[h.PageSize] = strconv.FormatUint(h.Limit, 10)
	}
	for k, v := range r.Unified {
		c.Unified[k] = v
	}
}

func extractHooks(h *api.Hooks, c *CState) {
	if h == nil {
		return
	}
	add := func(k string, hs []*api.Hook) {
		for _, x := range hs {
			c.Hooks[k] = append(c.Hooks[k], hookDesc(x.Path, x.Args, x.Env, x.Timeout.Get()))
		}
	}
	add("prestart", h.Prestart)
	add("poststart", h.Poststart)
	add("poststop", h.Poststop)
	add("createruntime", h.CreateRuntime)
	add("createcontainer", h.CreateContainer)
	add("startcontainer", h.StartContainer)
}

// extractContainer turns the container a plugin was shown into items.
func extractContainer(ctr *api.Container) *CState {
	c := newCState()
	if ctr == nil {
		return c
	}
	for k, v := range ctr.Annotations {
		c.Ann[k] = v
	}
	for _, e := range ctr.Env {
		kv := strings.SplitN(e, "=", 2)
		v := ""
		if len(kv) == 2 {
			v = kv[1]
		}
		if _, dup := c.Env[kv[0]]; dup {
			c.Anomal = append(c.Anomal, fmt.Sprintf("environment variable %q listed more than once", kv[0]))
		}
		c.Env[kv[0]] = v
	}
	for _, m := range ctr.Mounts {
		if _, dup := c.Mounts[m.Destination]; dup {
			c.Anomal = append(c.Anomal, fmt.Sprintf("mount destination %q listed more than once", m.Destination))
		}
		c.Mounts[m.Destination] = mountDesc(m.Source, m.Type, m.Options)
	}
	c.Args = append([]string(nil), ctr.Args...)
	extractHooks(ctr.Hooks, c)
	for _, l := range ctr.Rlimits {
		c.Rlimits = append(c.Rlimits, l.Type+"="+rlimitDesc(l.Hard, l.Soft))
	}
	if l := ctr.Linux; l != nil {
		for _, d := range l.Devices {
			if _, dup := c.Devs[d.Path]; dup {
				c.Anomal = append(c.Anomal, fmt.Sprintf("device path %q listed more than once", d.Path))
			}
			c.Devs[d.Path] = devDescNRI(d)
		}
		extractResources(l.Resources, c)
		c.CgPath = l.CgroupsPath
		if l.OomScoreAdj != nil {
			c.Oom = strconv.FormatInt(l.OomScoreAdj.Value, 10)
		}
	}
	return c
}

// extractAdjustSets returns item -> value for everything a combined adjustment sets
// (removal markers excluded), plus anomalies.
func extractAdjustSets(a *api.ContainerAdjustment) (map[string]string, []string) {
	out := map[string]string{}
	var anom []string
	put := func(item, v string) {
		if _, dup := out[item]; dup {
			anom = append(anom, fmt.Sprintf("item %s set more than once in the combined adjustment", item))
		}
		out[item] = v
	}
	if a == nil {
		return out, nil
	}
	for k, v := range a.Annotations {
		if _, marked := api.IsMarkedForRemoval(k); !marked {
			put("ann|"+k, v)
		}
	}
	for _, e := range a.Env {
		if _, marked := e.IsMarkedForRemoval(); !marked {
			put("env|"+e.Key, e.Value)
		}
	}
	for _, m := range a.Mounts {
		if _, marked := m.IsMarkedForRemoval(); !marked {
			put("mount|"+m.Destination, mountDesc(m.Source, m.Type, m.Options))
		}
	}
	if len(a.Args) > 0 {
		put("args|", strings.Join(a.Args, " "))
	}
	for _, d := range a.CDIDevices {
		put("cdi|"+d.Name, "present")
	}
	for _, l := range a.Rlimits {
		put("rlimit|"+l.Type, rlimitDesc(l.Hard, l.Soft))
	}
	if l := a.Linux; l != nil {
		for _, d := range l.Devices {
			if _, marked := d.IsMarkedForRemoval(); !marked {
				put("dev|"+d.Path, devDescNRI(d))
			}
		}
		c := newCState()
		extractResources(l.Resources, c)
		anom = append(anom, c.Anomal...)
		for k, v := range c.Res {
			put(k+"|", v)
		}
		for k, v := range c.Huge {
			put("huge|"+k, v)
		}
		for k, v := range c.Unified {
			put("unified|"+k, v)
		}
		if l.CgroupsPath != "" {
			put("cgpath|", l.CgroupsPath)
		}
		if l.OomScoreAdj != nil {
			put("oom|", strconv.FormatInt(l.OomScoreAdj.Value, 10))
		}
	}
	return out, anom
}

// ---- the model -------------------------------------------------------------------------

// MExpect is what the model predicts for one request.
type MExpect struct {
	Conflict   string             // non-empty: two different plugins set the same item; the request must fail
	SelfUpdate string             // non-empty: a plugin updated the container being created; the request must fail
	Views      map[string]*CState // plugin -> container (create) or resources (update) it must be shown
	FinalSets  map[string]string  // create: item -> value of its final plugin owner
	Updates    map[string]*CState // target -> fields plugins set (accepted writes only)
	Own        *CState            // update request: requested resources overlaid with the plugins' changes
	OwnChanged bool
	Dropped    int             // ignore-failure updates dropped
	Kinds      map[string]bool // item kinds that collided (probes)
	Ambiguous  string          // non-empty: the case is outside what the statements fix; nothing is asserted
}

func stateFromOrig(orig []MOp) *CState {
	c := newCState()
	for _, o := range orig {
		c.set(o)
	}
	c.OrigArgs = append([]string(nil), c.Args...)
	return c
}

// runModel evaluates a request against the replies of the plugins in invocation order.
func runModel(rq *MReq, order []string) *MExpect {
	ex := &MExpect{Views: map[string]*CState{}, FinalSets: map[string]string{}, Updates: map[string]*CState{}, Kinds: map[string]bool{}}
	st := stateFromOrig(rq.Orig) // create: the container; update: the requested resources
	owners := map[string]map[string]string{}
	own := func(t string) map[string]string {
		if owners[t] == nil {
			owners[t] = map[string]string{}
		}
		return owners[t]
	}
	if rq.Kind == "update" {
		ex.Own = st
	}
	for _, p := range order {
		if rq.Kind == "create" || rq.Kind == "update" {
			ex.Views[p] = st.clone()
		}
		rp := rq.Replies[p]
		if rp == nil {
			continue
		}
		if rq.Kind == "create" {
			led := own(rq.ID)
			// removals first ...
			for _, o := range rp.Ops {
				if o.Act == "rm" || o.Act == "rmset" {
					delete(led, o.item())
					delete(ex.FinalSets, o.item())
					if o.Kind == "args" {
						// the marker releases the claim; without a set in the same reply no plugin's
						// command line is left in the combined result: the runtime's original applies
						if o.Act == "rm" {
							st.Args = append([]string(nil), st.OrigArgs...)
						}
					} else {
						st.remove(o)
					}
				}
			}
			// ... then sets
			for _, o := range rp.Ops {
				if o.Act != "set" && o.Act != "rmset" {
					continue
				}
				if o.Kind == "hook" {
					st.set(o)
					continue
				}
				if prev, taken := led[o.item()]; taken && prev != p {
					ex.Conflict = fmt.Sprintf("%s and %s both set %s", prev, p, o.item())
					ex.Kinds[o.Kind] = true
					return ex
				} else if taken {
					ex.Ambiguous = "one plugin sets the same item twice"
				}
				led[o.item()] = p
				st.set(o)
				if o.Kind == "args" {
					ex.FinalSets[o.item()] = strings.Join(argsOf(o.Val), " ")
				} else {
					ex.FinalSets[o.item()] = valStr(o.Kind, o.Val)
				}
			}
		}
		for _, u := range rp.Updates {
			if rq.Kind == "create" && u.Target == rq.ID {
				ex.SelfUpdate = fmt.Sprintf("%s updates the container being created", p)
				return ex
			}
			led := own(u.Target)
			clash := ""
			for _, o := range u.Ops {
				if prev, taken := led[o.item()]; taken {
					if prev == p {
						ex.Ambiguous = "one plugin sets the same field of one target twice"
					}
					clash = fmt.Sprintf("%s and %s both set %s of %s", prev, p, o.item(), u.Target)
					ex.Kinds["update:"+o.Kind] = true
					break
				}
			}
			if clash != "" {
				if u.Ignore {
					ex.Dropped++ // dropped in its entirety, contributing no values (and no claims)
					continue
				}
				ex.Conflict = clash
				return ex
			}
			tgt := ex.Updates[u.Target]
			if tgt == nil {
				tgt = newCState()
				ex.Updates[u.Target] = tgt
			}
			for _, o := range u.Ops {
				led[o.item()] = p
				tgt.set(o)
				if rq.Kind == "update" && u.Target == rq.ID {
					st.set(o)
					ex.OwnChanged = true
				}
			}
		}
	}
	return ex
}

func (c *CState) resourceFields() int { return len(c.Res) + len(c.Huge) + len(c.Unified) }

func fmtDiffs(d []string) string {
	sort.Strings(d)
	if len(d) > 6 {
		d = append(d[:6], fmt.Sprintf("... and %d more", len(d)-6))
	}
	return strings.Join(d, "; ")
}
