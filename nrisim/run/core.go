// Package run contains the harnesses, workload generators, reference models and
// oracles, one file per property, plus the child-process entry point (TestChild).
package run

import (
	"encoding/json"
	"fmt"
	"math/rand"
	"os"
	"runtime/debug"
	"sort"
	"strings"
	stdsync "sync"
	"testing"
	"testing/synctest"
	"time"

	"nrisim/sim"
	"nrisim/simorder"

	"github.com/sirupsen/logrus"
)

type simItem = sim.Item

// Violation is one oracle verdict against one execution.
type Violation struct {
	Oracle string `json:"oracle"` // stable oracle id, e.g. "C06.exactly-once"
	Msg    string `json:"msg"`
}

// SchedCfg is everything besides the workload that determines an execution.
type SchedCfg struct {
	Seed     uint64   `json:"seed"`
	Strategy string   `json:"strategy"`
	Replay   []string `json:"replay,omitempty"`
	Trace    bool     `json:"-"`
}

// Result of one simulated run.
type Result struct {
	Violations []Violation    `json:"violations,omitempty"`
	Log        []string       `json:"-"`
	LogHash    uint64         `json:"log_hash"`
	Steps      int            `json:"steps"`
	SimTimeMs  int64          `json:"sim_ms"`
	Diverged   int            `json:"diverged"`
	Kinds      map[string]int `json:"kinds,omitempty"`
	Probes     map[string]int `json:"probes,omitempty"`
	Net        sim.NetStats   `json:"net"`
	LockPairs  int            `json:"lock_pairs"`
	Nontrivial bool           `json:"nontrivial"`
	Skipped    map[string]int `json:"skipped,omitempty"`
	Trace      []string       `json:"-"`
	Leaked     bool           `json:"leaked,omitempty"`
	Pending    []string       `json:"pending,omitempty"`
	Summary    any            `json:"summary,omitempty"` // short description of what happened (samples)
}

func (r *Result) Violate(oracle, f string, a ...any) {
	r.Violations = append(r.Violations, Violation{Oracle: oracle, Msg: fmt.Sprintf(f, a...)})
}

func (r *Result) Probe(name string) {
	if r.Probes == nil {
		r.Probes = map[string]int{}
	}
	r.Probes[name]++
}

func (r *Result) Skip(name string) {
	if r.Skipped == nil {
		r.Skipped = map[string]int{}
	}
	r.Skipped[name]++
}

// Property is one checkable property.
type Property struct {
	ID string
	// Gen draws a workload from rng. conf is the sub-configuration name (e.g.
	// "fault-free", "faults", "grid:<n>"); every property lists its configurations.
	Gen func(rng *rand.Rand, conf string, idx int) any
	// New returns an empty workload value to unmarshal JSON into.
	New func() any
	// Run executes one workload under one schedule configuration.
	Run func(t *testing.T, w any, sc SchedCfg) *Result
	// Shrink proposes strictly smaller workloads (most aggressive first).
	Shrink func(w any) []any
	// Confs lists the configurations for a tier with their weights; GridSize(conf) > 0 marks
	// an enumerated (not sampled) configuration with that many cases.
	Confs func(tier string) []Conf
	// Strategies to draw from (default uniform/pct/starve).
	Strategies []string
	// Components documents what ran real code vs stub (evidence).
	Components map[string]string
	Rule       string
}

type Conf struct {
	Name   string
	Weight int
	Grid   int // > 0: enumerate idx 0..Grid-1 once each instead of sampling
}

var Properties = map[string]*Property{}

func register(p *Property) { Properties[p.ID] = p }

// -------------------------------------------------------------------------------------
// bubble helper

// Env is handed to the body of a simulated run.
type Env struct {
	T   *testing.T
	S   *sim.Sched
	Res *Result

	mu       stdsync.Mutex
	tasks    int
	finished int
	hung     chan struct{} // closed at teardown: releases "hanging" handlers
	cleanup  []func()
}

// Task starts a named harness task; it begins when the scheduler fires "task:<name>".
func (e *Env) Task(name string, f func()) {
	e.mu.Lock()
	e.tasks++
	e.mu.Unlock()
	go func() {
		e.S.SetGName(name)
		e.S.ParkOwned("task:"+name, name, nil)
		f()
		e.mu.Lock()
		e.finished++
		e.mu.Unlock()
	}()
}

// TasksDone reports whether every task started so far has finished.
func (e *Env) TasksDone() bool {
	e.mu.Lock()
	defer e.mu.Unlock()
	return e.finished == e.tasks
}

func (e *Env) Unfinished() int {
	e.mu.Lock()
	defer e.mu.Unlock()
	return e.tasks - e.finished
}

// Hung is a channel closed at teardown.
func (e *Env) Hung() <-chan struct{} { return e.hung }

// OnTeardown registers a function run (on a fresh goroutine, under the scheduler) at the
// end of the run to shut the system down.
func (e *Env) OnTeardown(f func()) { e.cleanup = append(e.cleanup, f) }

// RunUntil drives the scheduler until cond holds at a quiescent point. It returns
// nil, sim.ErrStuck or sim.ErrSteps.
func (e *Env) RunUntil(maxSteps int, cond func() bool) error {
	e.S.Done = cond
	return e.S.Run(maxSteps)
}

func init() {
	logrus.SetLevel(logrus.PanicLevel)
	logrus.SetOutput(nullWriter{})
}

type nullWriter struct{}

func (nullWriter) Write(p []byte) (int, error) { return len(p), nil }

// Bubble runs body inside a synctest bubble with a fresh scheduler.
func Bubble(t *testing.T, sc SchedCfg, body func(e *Env)) (res *Result) {
	res = &Result{Diverged: -1}
	defer func() {
		sim.Cur = nil
		simorder.YieldFn = nil
		if r := recover(); r != nil {
			msg := fmt.Sprint(r)
			if strings.Contains(msg, "blocked goroutines remain") || strings.Contains(msg, "deadlock") {
				res.Leaked = true
				return
			}
			res.Violate("harness.panic", "panic on the bubble root: %v\n%s", r, debug.Stack())
		}
	}()
	synctest.Test(t, func(t *testing.T) {
		s := sim.New(sc.Seed, sc.Strategy)
		s.Replay = sc.Replay
		s.Trace = sc.Trace
		simorder.SetSeed(s.OrderSeed)
		e := &Env{T: t, S: s, Res: res, hung: make(chan struct{})}
		sim.Cur = s
		simorder.YieldFn = func(site string) {
			if c := sim.Cur; c != nil && !c.IsSchedGoroutine() {
				c.ParkOwned("yield:"+site, "", nil)
			}
		}
		start := time.Now()
		body(e)
		// teardown: release hung handlers, stop everything, drain
		close(e.hung)
		if len(e.cleanup) > 0 {
			done := false
			go func() {
				s.SetGName("teardown")
				for _, f := range e.cleanup {
					f()
				}
				done = true
			}()
			strat := s.Strategy
			s.Strategy = "uniform"
			s.IdleLimit = 30
			s.Done = func() bool { return false }
			nlog := len(s.Log)
			s.Run(20000)
			_ = done
			s.Strategy = strat
			s.Log = s.Log[:nlog] // teardown is not part of the execution's identity
		}
		res.Log = s.Log
		res.LogHash = s.LogHash()
		res.Steps = s.Steps
		res.SimTimeMs = time.Since(start).Milliseconds()
		res.Diverged = s.Diverged
		res.Kinds = s.Stats.Kinds
		for k, v := range s.Stats.Probes {
			if res.Probes == nil {
				res.Probes = map[string]int{}
			}
			res.Probes[k] += v
		}
		res.Net = s.Net
		res.LockPairs = s.LockTriples()
		res.Trace = s.TraceLines
		sim.Cur = nil
	})
	return res
}

// -------------------------------------------------------------------------------------
// small helpers

func sortedKeys[V any](m map[string]V) []string {
	ks := make([]string, 0, len(m))
	for k := range m {
		ks = append(ks, k)
	}
	sort.Strings(ks)
	return ks
}

// deep is the size multiplier of the "deep" configuration of the thorough tier.
func deep(conf string) int {
	if conf == "deep" {
		return 2
	}
	return 1
}

func pick[T any](rng *rand.Rand, xs []T) T { return xs[rng.Intn(len(xs))] }

func jsonClone[T any](v T) T {
	b, err := json.Marshal(v)
	if err != nil {
		panic(err)
	}
	var out T
	if err := json.Unmarshal(b, &out); err != nil {
		panic(err)
	}
	return out
}

func debugf(f string, a ...any) {
	if os.Getenv("VERIF_DEBUG") != "" {
		fmt.Fprintf(os.Stderr, f+"\n", a...)
	}
}
