package run

import (
	"context"
	"fmt"
	"math/rand"
	"strings"
	"testing"

	"nrisim/c15types"

	"github.com/containerd/nri/pkg/api"
	"github.com/containerd/nri/pkg/stub"
	"google.golang.org/protobuf/proto"
)

// C15 - the stub subscribes exactly the implemented events and dispatches faithfully.

type C15Msg struct {
	Handler int  `json:"h"`   // index into c15types.Names
	Err     bool `json:"err"` // the handler returns an error
	Seed    int  `json:"seed"`
}

type C15W struct {
	Mask       uint32     `json:"mask"`            // implemented handlers (bit i = c15types.Names[i])
	Configured bool       `json:"configured"`      // the plugin also implements Configure and Synchronize
	CfgKind    string     `json:"cfg_kind"`        // zero | subset | extra
	CfgBits    uint32     `json:"cfg_bits"`        // subset: requested handlers; extra: one unimplemented handler bit
	Senders    [][]C15Msg `json:"senders"`         // concurrent sender tasks of the runtime end
	Empty      bool       `json:"empty,omitempty"` // a plugin with no handler at all: stub.New must reject it
	// Restart: after the first session the same stub is stopped and started again on a fresh
	// connection, the Configure handler answering CfgKind2/CfgBits2 this time.
	Restart  bool   `json:"restart,omitempty"`
	CfgKind2 string `json:"cfg_kind2,omitempty"`
	CfgBits2 uint32 `json:"cfg_bits2,omitempty"`
	// AbortSplit: before everything else the stub goes through a session in which the runtime sends
	// the first AbortSplit chunk(s) of a split synchronization and then drops the connection; the
	// real session that follows synchronizes a different state in Chunks messages.
	AbortSplit int `json:"abort_split,omitempty"`
	Chunks     int `json:"chunks,omitempty"`
	ChunkShape int `json:"chunk_shape,omitempty"` // see RTEnd.ChunkShape
	// CancelStartCtx: the plugin starts its stub with a context of its own and cancels it once Start has
	// returned (a plugin that only bounds its start-up); dispatch must not care
	CancelStartCtx bool `json:"cancel_start_ctx,omitempty"`
}

func c15Gen(rng *rand.Rand, conf string, idx int) any {
	w := &C15W{}
	if conf == "subsets" {
		w.Mask = uint32(idx%8191) + 1
	} else {
		w.Mask = uint32(1 + rng.Intn(8191))
		if rng.Intn(2) == 0 {
			// half of the random cases use a type that also has a Configure/Synchronize variant
			for !c15types.HasConfigured(w.Mask) {
				w.Mask = uint32(1 + rng.Intn(8191))
			}
		}
		if rng.Intn(200) == 0 {
			w.Empty = true
		}
	}
	if c15types.HasConfigured(w.Mask) && rng.Intn(2) == 0 {
		w.Configured = true
		w.CfgKind = pick(rng, []string{"zero", "subset", "subset", "extra"})
		switch w.CfgKind {
		case "subset":
			w.CfgBits = w.Mask & uint32(rng.Intn(8192))
			if w.CfgBits == 0 {
				w.CfgBits = w.Mask
			}
		case "extra":
			free := []int{}
			for i := 0; i < 13; i++ {
				if w.Mask>>uint(i)&1 == 0 {
					free = append(free, i)
				}
			}
			if len(free) == 0 {
				w.CfgKind = "zero"
			} else {
				w.CfgBits = w.Mask&uint32(rng.Intn(8192)) | 1<<uint(pick(rng, free))
				switch rng.Intn(4) {
				case 0:
					w.CfgBits = 8191 // "all" events, although only some are implemented
				case 1:
					for _, f := range free {
						if rng.Intn(2) == 0 {
							w.CfgBits |= 1 << uint(f)
						}
					}
					w.CfgBits |= w.Mask
				}
			}
		}
	}
	if w.Configured && w.CfgKind != "extra" && rng.Intn(2) == 0 {
		w.Restart = true
		w.CfgKind2 = pick(rng, []string{"zero", "subset"})
		if w.CfgKind2 == "subset" {
			w.CfgBits2 = w.Mask & uint32(rng.Intn(8192))
			if w.CfgBits2 == 0 {
				w.CfgBits2 = w.Mask
			}
		}
	}
	if w.Configured && w.CfgKind != "extra" && rng.Intn(3) == 0 {
		w.AbortSplit = 1 + rng.Intn(2)
	}
	if w.Configured && rng.Intn(3) == 0 {
		w.Chunks = 2 + rng.Intn(3)
		w.ChunkShape = rng.Intn(4)
	}
	w.CancelStartCtx = rng.Intn(4) == 0
	ns := 1 + rng.Intn(3)
	perm := rng.Perm(13)
	k := 0
	for s := 0; s < ns; s++ {
		var msgs []C15Msg
		for n, cnt := 0, 2+rng.Intn(5); n < cnt; n++ {
			h := perm[k%13]
			k++
			if conf != "subsets" && rng.Intn(3) == 0 {
				h = rng.Intn(13)
			}
			msgs = append(msgs, C15Msg{Handler: h, Err: rng.Intn(5) == 0, Seed: rng.Intn(1 << 20)})
		}
		w.Senders = append(w.Senders, msgs)
	}
	if conf == "subsets" {
		// every one of the 13 messages at least once
		var msgs []C15Msg
		for h := 0; h < 13; h++ {
			msgs = append(msgs, C15Msg{Handler: h, Err: rng.Intn(6) == 0, Seed: rng.Intn(1 << 20)})
		}
		rng.Shuffle(len(msgs), func(i, j int) { msgs[i], msgs[j] = msgs[j], msgs[i] })
		w.Senders = [][]C15Msg{msgs[:6], msgs[6:]}
	}
	return w
}

func c15Pod(id string, seed int) *api.PodSandbox {
	return &api.PodSandbox{Id: "pod-" + id, Name: fmt.Sprintf("pod%d", seed%7), Uid: fmt.Sprintf("uid-%d", seed), Namespace: "ns",
		Labels: map[string]string{"l": fmt.Sprint(seed % 5)}, Annotations: map[string]string{"a": id}, RuntimeHandler: "runc",
		Linux: &api.LinuxPodSandbox{CgroupParent: "/cg/" + id}, Pid: uint32(seed%999 + 1)}
}

func c15Ctr(id string, seed int) *api.Container {
	c := &api.Container{Id: id, PodSandboxId: "pod-" + id, Name: fmt.Sprintf("ctr%d", seed%11), State: api.ContainerState(seed % 4),
		Labels: map[string]string{"k": fmt.Sprint(seed)}, Args: []string{"/bin/x", fmt.Sprint(seed)}, Env: []string{"A=" + id, fmt.Sprintf("B=%d", seed)},
		Mounts: []*api.Mount{{Destination: "/d", Source: "/s" + id, Type: "bind", Options: []string{"ro"}}}, Pid: uint32(seed % 77),
		Linux: &api.LinuxContainer{CgroupsPath: "/c/" + id, Resources: c15Res(seed)}}
	if seed%3 == 0 {
		c.Hooks = &api.Hooks{Prestart: []*api.Hook{{Path: "/h", Args: []string{id}}}}
	}
	return c
}

func cloneRes(r *api.LinuxResources) *api.LinuxResources {
	if r == nil {
		return nil
	}
	return proto.Clone(r).(*api.LinuxResources)
}

func c15Res(seed int) *api.LinuxResources {
	r := &api.LinuxResources{Memory: &api.LinuxMemory{Limit: api.Int64(int64(seed))}, Cpu: &api.LinuxCPU{Shares: api.UInt64(uint64(seed % 1024)), Cpus: "0-1"}}
	if seed%2 == 0 {
		r.HugepageLimits = []*api.HugepageLimit{{PageSize: "2M", Limit: uint64(seed % 50)}}
		r.Unified = map[string]string{"u": fmt.Sprint(seed)}
	}
	if seed%5 == 0 {
		r.Memory.Swappiness = api.UInt64(0) // zero-valued optional must survive
		r.Pids = &api.LinuxPids{Limit: 0}
	}
	return r
}

func c15Result(h int, id string, seed int, fail bool) c15types.Result {
	var r c15types.Result
	name := c15types.Names[h]
	if name == "CreateContainer" {
		a := &api.ContainerAdjustment{}
		a.AddAnnotation("k-"+id, fmt.Sprint(seed))
		a.AddEnv("E", id)
		a.SetLinuxCPUShares(uint64(seed % 100))
		if seed%2 == 0 {
			a.RemoveMount("/d")
			a.AddMount(&api.Mount{Destination: "/n", Source: "/s", Type: "bind"})
		}
		r.Adjust = a
	}
	if name == "CreateContainer" || name == "UpdateContainer" || name == "StopContainer" {
		u := &api.ContainerUpdate{ContainerId: "other-" + id}
		u.SetLinuxMemoryLimit(int64(seed))
		if seed%3 == 0 {
			u.SetIgnoreFailure()
		}
		r.Updates = []*api.ContainerUpdate{u}
		// more updates of rarer shapes: one that only sets the pids limit, one that names a container and
		// sets nothing, one with several fields; all must come back as they are, in this order
		if seed%2 == 1 {
			p := &api.ContainerUpdate{ContainerId: "pids-" + id}
			p.SetLinuxPidLimits(int64(seed%50 + 1))
			r.Updates = append(r.Updates, p)
		}
		if seed%5 == 0 {
			r.Updates = append(r.Updates, &api.ContainerUpdate{ContainerId: "bare-" + id})
		}
		if seed%4 == 0 {
			m := &api.ContainerUpdate{ContainerId: "many-" + id}
			m.SetLinuxCPUShares(uint64(seed%90 + 2))
			m.SetLinuxCPUSetCPUs("0-1")
			m.AddLinuxHugepageLimit("2M", uint64(seed))
			m.AddLinuxUnified("memory.high", fmt.Sprint(seed))
			m.SetLinuxBlockIOClass("cls")
			r.Updates = append(r.Updates, m)
		}
	}
	if fail {
		r.Err = fmt.Errorf("handler-error-%s-%s", name, id)
	}
	return r
}

type c15Sent struct {
	Msg   C15Msg
	ID    string
	Pod   *api.PodSandbox
	Ctr   *api.Container
	Res   *api.LinuxResources
	Over  *api.LinuxResources
	Reply proto.Message
	Err   error
	Done  bool
}

func c15Run(t *testing.T, wl any, sc SchedCfg) *Result {
	w := wl.(*C15W)
	return Bubble(t, sc, func(e *Env) {
		res := e.Res
		e.S.IdleLimit = 50
		h := NewH3(e)
		rec := &c15types.Rec{}
		var plugin any
		if w.Empty {
			_, err := stub.New(struct{}{}, stub.WithPluginName("p15"), stub.WithPluginIdx("15"), stub.WithDialer(h.Dialer))
			if err == nil {
				res.Violate("C15.no-handlers", "stub.New accepted a plugin that implements no handler at all")
			}
			res.Nontrivial = true
			return
		}
		if w.Configured {
			plugin = c15types.NewConfigured(w.Mask, rec)
		} else {
			plugin = c15types.New(w.Mask, rec)
		}
		// protocol-level masks
		var implemented, requested api.EventMask
		for i, n := range c15types.Names {
			if w.Mask>>uint(i)&1 == 1 {
				implemented |= EventBit(n)
			}
			if w.CfgBits>>uint(i)&1 == 1 {
				requested |= EventBit(n)
			}
		}
		wantMask, wantFail := implemented, false
		if w.Configured {
			switch w.CfgKind {
			case "zero":
				rec.CfgMask = 0
			case "subset":
				rec.CfgMask, wantMask = requested, requested
			case "extra":
				rec.CfgMask, wantFail = requested, true
			}
		}
		byID := map[string]*c15Sent{}
		rec.Script = func(hd int, pod *api.PodSandbox, c *api.Container) c15types.Result {
			id := c.GetId()
			if c == nil {
				id = strings.TrimPrefix(pod.GetId(), "pod-")
			}
			s := byID[id]
			if s == nil {
				return c15types.Result{}
			}
			return c15Result(hd, id, s.Msg.Seed, s.Msg.Err)
		}
		rec.Gate = func(hd int, pod *api.PodSandbox, c *api.Container) {
			e.S.ParkOwned(fmt.Sprintf("gate:p15:%s:%s%s", c15types.Names[hd], pod.GetId(), c.GetId()), "plug:p15", nil)
		}
		st, err := stub.New(plugin, stub.WithPluginName("p15"), stub.WithPluginIdx("15"), stub.WithDialer(h.Dialer), stub.WithOnClose(func() {}))
		if err != nil {
			res.Violate("C15.new", "stub.New rejected a plugin implementing handlers %#x: %v", w.Mask, err)
			return
		}
		e.OnTeardown(func() { st.Stop() })
		mkState := func(tag string, np, nc int) ([]*api.PodSandbox, []*api.Container) {
			var ps []*api.PodSandbox
			var cs []*api.Container
			for i := 0; i < np; i++ {
				ps = append(ps, &api.PodSandbox{Id: fmt.Sprintf("%s-pod%d", tag, i), Name: tag})
			}
			for i := 0; i < nc; i++ {
				cs = append(cs, &api.Container{Id: fmt.Sprintf("%s-ctr%d", tag, i), PodSandboxId: fmt.Sprintf("%s-pod0", tag)})
			}
			return ps, cs
		}
		base := 0
		h.Setup = func(r *RTEnd) {
			if w.AbortSplit > 0 && r.N == 0 {
				r.Pods, r.Ctrs = mkState("old", 6, 6)
				r.Chunks, r.AbortAfter = 3, w.AbortSplit
				return
			}
			if w.Configured {
				r.Pods, r.Ctrs = mkState(fmt.Sprintf("s%d", r.N), 3+r.N, 4+r.N)
				r.Chunks = w.Chunks
				r.ChunkShape = w.ChunkShape
			}
		}
		if w.AbortSplit > 0 {
			var err0 error
			e.Task("aborted-session", func() {
				err0 = st.Start(context.Background())
				e.S.Settle("aborted-session")
				// the connection is gone by now and the stub has noticed; a plugin may call Stop before
				// it starts again, or just start again
				if w.AbortSplit%2 == 1 {
					st.Stop()
					e.S.Settle("aborted-session")
				} else {
					res.Probe("C15.restart-after-lost-connection-without-stop")
				}
			})
			if err := e.RunUntil(300000, func() bool { return e.TasksDone() }); err != nil {
				res.Violate("C15.restart", "the session with the aborted split synchronization did not end: %v; pending %v", err, e.S.Pending())
				return
			}
			_ = err0
			base = 1
			if rec.Syncs != 0 {
				res.Violate("C15.dispatch", "the Synchronize handler was called %d times although the runtime never sent the final chunk of the split synchronization", rec.Syncs)
			}
			rec.CfgCalls, rec.Syncs, rec.SyncPods, rec.SyncCtrs = 0, 0, nil, nil
			res.Probe("C15.aborted-split-sync-before-the-session")
		}
		var startErr error
		e.Task("start", func() {
			if w.CancelStartCtx {
				ctx, cancel := context.WithCancel(context.Background())
				startErr = st.Start(ctx)
				cancel()
				res.Probe("C15.start-context-cancelled-after-start")
				return
			}
			startErr = st.Start(context.Background())
		})
		if err := e.RunUntil(200000, func() bool {
			return e.TasksDone() && len(h.Ends) == base+1 && (h.Ends[base].IsReady() || h.Ends[base].IsDown() || startErr != nil)
		}); err != nil {
			res.Violate("C15.handshake", "handshake did not finish: %v; pending %v", err, e.S.Pending())
			return
		}
		end := h.Ends[base]
		if wantFail {
			// let the Configure reply reach the runtime end
			e.RunUntil(100000, func() bool {
				end.mu.Lock()
				defer end.mu.Unlock()
				return end.CfgErr != nil || end.Configured
			})
			res.Nontrivial = true
			res.Probe("C15.unhandled-event-requested")
			if startErr == nil || end.CfgErr == nil {
				res.Violate("C15.extra-event-rejected", "the plugin asked at configuration time for events %#x beyond its handlers %#x but configuration succeeded (Start: %v, Configure: %v, mask in reply %#x)", uint32(requested), uint32(implemented), startErr, end.CfgErr, end.Events)
			}
			return
		}
		if startErr != nil {
			res.Violate("C15.start", "Start failed: %v (Configure at the runtime end: %v)", startErr, end.CfgErr)
			return
		}
		if api.EventMask(end.Events) != wantMask {
			res.Violate("C15.mask", "plugin implements handlers %s (configure: %s %#x): subscribed mask %#x, want %#x", handlerNames(w.Mask), w.CfgKind, uint32(requested), end.Events, uint32(wantMask))
		}
		if w.Configured && rec.CfgCalls != 1 {
			res.Violate("C15.configure-once", "Configure handler called %d times", rec.CfgCalls)
		}
		if w.Configured && rec.Syncs != 1 {
			res.Violate("C15.dispatch", "Synchronize handler called %d times (aborted split sync before: %d chunk(s); this session's state sent in %d message(s))", rec.Syncs, w.AbortSplit, w.Chunks)
		}
		if w.Configured && rec.Syncs == 1 {
			ids := func(ps []*api.PodSandbox, cs []*api.Container) string {
				var x []string
				for _, p := range ps {
					x = append(x, p.GetId())
				}
				for _, c := range cs {
					x = append(x, c.GetId())
				}
				return strings.Join(x, " ")
			}
			if got, want := ids(rec.SyncPods, rec.SyncCtrs), ids(end.Pods, end.Ctrs); got != want {
				res.Violate("C15.payload", "Synchronize handler received [%s], the runtime sent [%s] in this session (in %d message(s); chunks of an aborted earlier synchronization: %d)", got, want, end.ChunksSent, w.AbortSplit)
			}
		}
		// messages
		var sent []*c15Sent
		n := 0
		for si, msgs := range w.Senders {
			mine := make([]*c15Sent, len(msgs))
			for k, m := range msgs {
				n++
				id := fmt.Sprintf("x%d", n)
				s := &c15Sent{Msg: m, ID: id, Pod: c15Pod(id, m.Seed)}
				name := c15types.Names[m.Handler]
				if !IsPodEvent(name) {
					s.Ctr = c15Ctr(id, m.Seed)
				}
				if name == "UpdateContainer" || name == "UpdatePodSandbox" {
					s.Res = c15Res(m.Seed + 1)
				}
				if name == "UpdatePodSandbox" && m.Seed%3 != 0 {
					s.Over = c15Res(m.Seed + 2)
				}
				byID[id] = s
				mine[k] = s
				sent = append(sent, s)
			}
			e.Task(fmt.Sprintf("sender%d", si), func() {
				ctx := context.Background()
				for _, s := range mine {
					name := c15types.Names[s.Msg.Handler]
					pod := proto.Clone(s.Pod).(*api.PodSandbox)
					var ctr *api.Container
					if s.Ctr != nil {
						ctr = proto.Clone(s.Ctr).(*api.Container)
					}
					switch name {
					case "CreateContainer":
						s.Reply, s.Err = end.PC.CreateContainer(ctx, &api.CreateContainerRequest{Pod: pod, Container: ctr})
					case "UpdateContainer":
						s.Reply, s.Err = end.PC.UpdateContainer(ctx, &api.UpdateContainerRequest{Pod: pod, Container: ctr, LinuxResources: proto.Clone(s.Res).(*api.LinuxResources)})
					case "StopContainer":
						s.Reply, s.Err = end.PC.StopContainer(ctx, &api.StopContainerRequest{Pod: pod, Container: ctr})
					case "UpdatePodSandbox":
						s.Reply, s.Err = end.PC.UpdatePodSandbox(ctx, &api.UpdatePodSandboxRequest{Pod: pod, LinuxResources: proto.Clone(s.Res).(*api.LinuxResources), OverheadLinuxResources: cloneRes(s.Over)})
					default:
						ev := api.Event(api.Event_value[eventEnumName(name)])
						s.Reply, s.Err = end.PC.StateChange(ctx, &api.StateChangeEvent{Event: ev, Pod: pod, Container: ctr})
					}
					s.Done = true
				}
			})
		}
		if err := e.RunUntil(400000, func() bool { return e.TasksDone() }); err != nil {
			res.Violate("C15.liveness", "messages were not answered: %v; pending %v", err, e.S.Pending())
			return
		}
		calls := rec.Snapshot()
		got := map[string][]c15types.Invocation{}
		for _, c := range calls {
			id := c.Ctr.GetId()
			if c.Ctr == nil {
				id = strings.TrimPrefix(c.Pod.GetId(), "pod-")
			}
			got[id] = append(got[id], c)
		}
		handled := 0
		for _, s := range sent {
			name := c15types.Names[s.Msg.Handler]
			has := w.Mask>>uint(s.Msg.Handler)&1 == 1
			cs := got[s.ID]
			if !has {
				if len(cs) != 0 {
					res.Violate("C15.dispatch", "%s message %s: the plugin has no handler for it but handler %s was invoked", name, s.ID, c15types.Names[cs[0].Handler])
				}
				if s.Err != nil {
					res.Violate("C15.dispatch", "%s message %s for which the plugin has no handler was answered with an error: %v", name, s.ID, s.Err)
				}
				continue
			}
			handled++
			if len(cs) != 1 {
				res.Violate("C15.dispatch", "%s message %s was delivered to %d handler invocations", name, s.ID, len(cs))
				continue
			}
			c := cs[0]
			if c.Handler != s.Msg.Handler {
				res.Violate("C15.dispatch", "%s message %s was delivered to the %s handler", name, s.ID, c15types.Names[c.Handler])
			}
			if !proto.Equal(c.Pod, s.Pod) {
				res.Violate("C15.payload", "%s message %s: handler received pod %v, sent %v", name, s.ID, c.Pod, s.Pod)
			}
			if s.Ctr != nil && !proto.Equal(c.Ctr, s.Ctr) {
				res.Violate("C15.payload", "%s message %s: handler received container %v, sent %v", name, s.ID, c.Ctr, s.Ctr)
			}
			if s.Res != nil && !proto.Equal(c.Res, s.Res) {
				res.Violate("C15.payload", "%s message %s: handler received resources %v, sent %v", name, s.ID, c.Res, s.Res)
			}
			if name == "UpdatePodSandbox" && !proto.Equal(c.Over, s.Over) {
				res.Violate("C15.payload", "%s message %s: handler received overhead resources %v, sent %v", name, s.ID, c.Over, s.Over)
			}
			want := c15Result(s.Msg.Handler, s.ID, s.Msg.Seed, s.Msg.Err)
			if s.Msg.Err {
				if s.Err == nil || !strings.Contains(s.Err.Error(), want.Err.Error()) {
					res.Violate("C15.result", "%s message %s: handler failed with %q, the runtime end got err=%v", name, s.ID, want.Err, s.Err)
				}
				continue
			}
			if s.Err != nil {
				res.Violate("C15.result", "%s message %s failed: %v", name, s.ID, s.Err)
				continue
			}
			switch r := s.Reply.(type) {
			case *api.CreateContainerResponse:
				if !proto.Equal(r.GetAdjust(), want.Adjust) {
					res.Violate("C15.result", "%s message %s: adjustment arrived as %v, handler returned %v", name, s.ID, r.GetAdjust(), want.Adjust)
				}
				c15cmpUpd(res, name, s.ID, r.GetUpdate(), want.Updates)
			case *api.UpdateContainerResponse:
				c15cmpUpd(res, name, s.ID, r.GetUpdate(), want.Updates)
			case *api.StopContainerResponse:
				c15cmpUpd(res, name, s.ID, r.GetUpdate(), want.Updates)
			}
		}
		// Shutdown is a request like any other: delivered once to its handler if there is one
		var sderr error
		e.Task("shutdown", func() { _, sderr = end.PC.Shutdown(context.Background(), &api.Empty{}) })
		if err := e.RunUntil(100000, func() bool { return e.TasksDone() }); err != nil {
			res.Violate("C15.liveness", "Shutdown was not answered: %v", err)
			return
		}
		wantSd := 0
		if w.Configured {
			wantSd = 1
		}
		if sderr != nil || rec.Shutdowns != wantSd {
			res.Violate("C15.dispatch", "Shutdown request: err=%v, handler invocations %d, want %d", sderr, rec.Shutdowns, wantSd)
		}
		res.Nontrivial = handled > 0
		if w.Configured {
			res.Probe("C15.configure-handler." + w.CfgKind)
		}
		if w.Restart {
			// second session of the same stub instance
			var requested2 api.EventMask
			for i, n := range c15types.Names {
				if w.CfgBits2>>uint(i)&1 == 1 {
					requested2 |= EventBit(n)
				}
			}
			want2 := implemented
			rec.CfgMask = 0
			if w.CfgKind2 == "subset" {
				rec.CfgMask, want2 = requested2, requested2
			}
			var err2 error
			e.Task("restart", func() {
				st.Stop()
				e.S.Settle("restart")
				err2 = st.Start(context.Background())
			})
			if err := e.RunUntil(300000, func() bool {
				return e.TasksDone() && (err2 != nil || (len(h.Ends) == base+2 && h.Ends[base+1].IsReady()))
			}); err != nil {
				res.Violate("C15.restart", "restart of the stub did not finish: %v; pending %v", err, e.S.Pending())
				return
			}
			res.Probe("C15.restart." + w.CfgKind + "-then-" + w.CfgKind2)
			if err2 != nil {
				res.Violate("C15.mask", "plugin implements %s; first session configured %s %#x; restarted with %s %#x (all within the implemented events): Start failed: %v", handlerNames(w.Mask), w.CfgKind, uint32(requested), w.CfgKind2, uint32(requested2), err2)
				return
			}
			end2 := h.Ends[base+1]
			if api.EventMask(end2.Events) != want2 {
				res.Violate("C15.mask", "plugin implements %s; first session configured %s %#x; after a restart with %s %#x the subscribed mask is %#x, want %#x", handlerNames(w.Mask), w.CfgKind, uint32(requested), w.CfgKind2, uint32(requested2), end2.Events, uint32(want2))
			}
			// the second session's synchronization carries that session's state, nothing of the first
			if rec.Syncs != 2 {
				res.Violate("C15.dispatch", "after the restart the Synchronize handler has been called %d times in total, want 2 (one per session)", rec.Syncs)
			} else {
				ids := func(ps []*api.PodSandbox, cs []*api.Container) string {
					var x []string
					for _, p := range ps {
						x = append(x, p.GetId())
					}
					for _, c := range cs {
						x = append(x, c.GetId())
					}
					return strings.Join(x, " ")
				}
				if got, want := ids(rec.SyncPods, rec.SyncCtrs), ids(end2.Pods, end2.Ctrs); got != want {
					res.Violate("C15.payload", "after the restart the Synchronize handler received [%s], the runtime sent [%s] in that session (in %d message(s); the first session's state went in %d message(s))", got, want, end2.ChunksSent, end.ChunksSent)
				}
			}
			// one message per implemented handler must still reach it
			before := len(rec.Snapshot())
			nsent := 0
			e.Task("sender-restart", func() {
				for hd := 0; hd < 13; hd++ {
					if w.Mask>>uint(hd)&1 == 0 {
						continue
					}
					name := c15types.Names[hd]
					id := fmt.Sprintf("y%d", hd)
					pod := c15Pod(id, hd)
					var ctr *api.Container
					if !IsPodEvent(name) {
						ctr = c15Ctr(id, hd)
					}
					nsent++
					ctx := context.Background()
					switch name {
					case "CreateContainer":
						end2.PC.CreateContainer(ctx, &api.CreateContainerRequest{Pod: pod, Container: ctr})
					case "UpdateContainer":
						end2.PC.UpdateContainer(ctx, &api.UpdateContainerRequest{Pod: pod, Container: ctr})
					case "StopContainer":
						end2.PC.StopContainer(ctx, &api.StopContainerRequest{Pod: pod, Container: ctr})
					case "UpdatePodSandbox":
						end2.PC.UpdatePodSandbox(ctx, &api.UpdatePodSandboxRequest{Pod: pod})
					default:
						end2.PC.StateChange(ctx, &api.StateChangeEvent{Event: api.Event(api.Event_value[eventEnumName(name)]), Pod: pod, Container: ctr})
					}
				}
			})
			if err := e.RunUntil(300000, func() bool { return e.TasksDone() }); err != nil {
				res.Violate("C15.restart", "messages of the second session were not answered: %v", err)
				return
			}
			if got := len(rec.Snapshot()) - before; got != nsent {
				res.Violate("C15.dispatch", "after the restart %d messages were sent to implemented handlers, %d handler invocations happened", nsent, got)
			}
		}
		res.Summary = map[string]any{"handlers": handlerNames(w.Mask), "subscribed_mask": end.Events, "messages": len(sent), "delivered_to_a_handler": handled}
	})
}

func c15cmpUpd(res *Result, name, id string, got, want []*api.ContainerUpdate) {
	if len(got) != len(want) {
		res.Violate("C15.result", "%s message %s: %d updates arrived, handler returned %d", name, id, len(got), len(want))
		return
	}
	for i := range got {
		if !proto.Equal(got[i], want[i]) {
			res.Violate("C15.result", "%s message %s: update %d arrived as %v, handler returned %v", name, id, i, got[i], want[i])
		}
	}
}

func handlerNames(mask uint32) string {
	var s []string
	for i, n := range c15types.Names {
		if mask>>uint(i)&1 == 1 {
			s = append(s, n)
		}
	}
	return strings.Join(s, "+")
}

func eventEnumName(name string) string {
	var b strings.Builder
	for i, r := range name {
		if r >= 'A' && r <= 'Z' && i > 0 {
			b.WriteByte('_')
		}
		b.WriteRune(r)
	}
	return strings.ToUpper(b.String())
}

func c15Shrink(wl any) []any {
	w := wl.(*C15W)
	var out []any
	for i := range w.Senders {
		if len(w.Senders) > 1 {
			c := jsonClone(w)
			c.Senders = append(c.Senders[:i], c.Senders[i+1:]...)
			out = append(out, c)
		}
		for k := range w.Senders[i] {
			if len(w.Senders[i]) > 1 {
				c := jsonClone(w)
				c.Senders[i] = append(c.Senders[i][:k], c.Senders[i][k+1:]...)
				out = append(out, c)
			}
		}
	}
	for i := 0; i < 13; i++ {
		if w.Mask>>uint(i)&1 == 1 && w.Mask != 1<<uint(i) && !w.Configured {
			c := jsonClone(w)
			c.Mask &^= 1 << uint(i)
			out = append(out, c)
		}
	}
	return out
}

func init() {
	register(&Property{
		ID: "C15", Gen: c15Gen, New: func() any { return &C15W{} }, Run: c15Run, Shrink: c15Shrink,
		Confs: func(tier string) []Conf {
			if tier == "thorough" {
				return []Conf{{Name: "subsets", Grid: 8191}, {Name: "random", Weight: 1}}
			}
			return []Conf{{Name: "subsets", Weight: 1}, {Name: "random", Weight: 1}}
		},
		Components: h3Components,
		Rule: "subsets: one plugin type per non-empty subset of the 13 handler interfaces (8191 generated types; thorough enumerates all, quick samples), half of the sampled ones with a Configure handler returning 0 / a subset / a set with an unimplemented event; the scripted runtime end sends all 13 message kinds (random content, 1-3 concurrent senders, handlers parked at scheduler gates) including those the plugin has no handler for; " +
			"non-trivial = at least one message reached a handler, or a rejection path was taken; distinct = distinct event-log hash",
	})
}
