package run

import (
	"encoding/json"
	"fmt"
	"hash/fnv"
	"math/rand"
	"path/filepath"
	"sort"
	"strconv"
	"strings"
	"testing"

	"nrisim/simorder"

	"github.com/containerd/nri/pkg/api"
	rspec "github.com/opencontainers/runtime-spec/specs-go"
)

// C13 - applying an adjustment changes exactly what it names, deterministically.
//
// The only nondeterminism in generate.go is map iteration order; that is the seam the
// simulator owns here (simorder). Every generated (spec, adjustment) is applied under
// every permutation of the maps the generator ranges over (all 24 index values cover every
// permutation of maps with up to 4 keys). The model part of the oracle is input
// generation riding on the same runs (see DESIGN.md, C13 honesty note).

type C13W struct {
	Orig []MOp `json:"orig"`
	Ops  []MOp `json:"ops"`
	// SetFirst lists items whose set precedes their removal marker in the adjustment's lists
	// (list order must not matter either).
	SetFirst []string `json:"set_first,omitempty"`
	// OrigBlk > 0 / OrigRdt != "": the runtime's spec already carries a block I/O weight / an RDT class
	// (an adjustment with an empty class name clears it, one with a class replaces it, none leaves it)
	OrigBlk int    `json:"orig_blk,omitempty"`
	OrigRdt string `json:"orig_rdt,omitempty"`
}

// c13Spec is the runtime's spec of the case.
func c13Spec(w *C13W, orig *api.Container) *rspec.Spec {
	s := specFromContainer(orig)
	if w.OrigBlk > 0 {
		if s.Linux.Resources == nil {
			s.Linux.Resources = &rspec.LinuxResources{}
		}
		wt := uint16(w.OrigBlk)
		s.Linux.Resources.BlockIO = &rspec.LinuxBlockIO{Weight: &wt}
	}
	if w.OrigRdt != "" {
		s.Linux.IntelRdt = &rspec.LinuxIntelRdt{ClosID: w.OrigRdt}
	}
	return s
}

func c13Gen(rng *rand.Rand, conf string, idx int) any {
	g := &mgen{rng: rng}
	w := &C13W{}
	w.Orig = g.genOrig("create", rng.Intn(3) == 0)
	// more annotations / unified keys so that the ranged maps have several entries
	extraAnn := []string{"a3", "a4", "a5"}
	for _, k := range extraAnn {
		if rng.Intn(2) == 0 {
			w.Orig = append(w.Orig, MOp{Kind: "ann", Key: k, Act: "set", Val: g.val()})
		}
	}
	if rng.Intn(3) == 0 {
		w.OrigBlk = 100 + rng.Intn(800)
	}
	if rng.Intn(3) == 0 {
		w.OrigRdt = fmt.Sprintf("orig%d", rng.Intn(9))
	}
	// the runtime's spec need not list mounts parents-first
	rng.Shuffle(len(w.Orig), func(i, j int) { w.Orig[i], w.Orig[j] = w.Orig[j], w.Orig[i] })
	for _, extra := range []string{"/m2/a", "/m2/a/b"} {
		if rng.Intn(3) == 0 {
			w.Orig = append([]MOp{{Kind: "mount", Key: extra, Act: "set", Val: g.val()}}, w.Orig...)
		}
	}
	items := append([]itemSpec(nil), adjustItems...)
	for _, k := range extraAnn {
		items = append(items, itemSpec{"ann", k})
	}
	items = append(items, itemSpec{"unified", "u3"}, itemSpec{"unified", "u4"}, itemSpec{"mount", "/m2/a/b"}, itemSpec{"mount", "/m2/a"}, itemSpec{"mount", "/z"})
	rng.Shuffle(len(items), func(i, j int) { items[i], items[j] = items[j], items[i] })
	p := 0.15 + 0.35*rng.Float64()
	for _, it := range items {
		if rng.Float64() >= p {
			continue
		}
		o := MOp{Kind: it.kind, Key: it.key, Val: g.valFor(it.kind), Act: "set"}
		if removable(it.kind) && it.kind != "args" {
			o.Act = pick(rng, []string{"set", "rm", "rmset", "rmset"})
			if o.Act == "rmset" && it.kind != "ann" && rng.Intn(3) == 0 {
				w.SetFirst = append(w.SetFirst, o.item())
			}
		}
		w.Ops = append(w.Ops, o)
	}
	for k, n := 0, rng.Intn(3); k < n; k++ {
		w.Ops = append(w.Ops, MOp{Kind: "hook", Key: pick(rng, hookTypes), Act: "set", Val: g.val()})
	}
	return w
}

// buildAdjustC13 is buildAdjust with control over the list order of remove-then-set pairs.
func buildAdjustC13(ops []MOp, setFirst map[string]bool) *api.ContainerAdjustment {
	var re []MOp
	for _, o := range ops {
		if o.Act == "rmset" && setFirst[o.item()] {
			re = append(re, MOp{Kind: o.Kind, Key: o.Key, Act: "set", Val: o.Val}, MOp{Kind: o.Kind, Key: o.Key, Act: "rm"})
		} else {
			re = append(re, o)
		}
	}
	return buildAdjust(re, false)
}

func nthPerm(n, k int) []int {
	if n <= 1 {
		return nil
	}
	idx := make([]int, n)
	for i := range idx {
		idx[i] = i
	}
	out := make([]int, 0, n)
	for i := n; i >= 1; i-- {
		out = append(out, idx[k%i])
		idx = append(idx[:k%i], idx[k%i+1:]...)
		k /= i
	}
	return out
}

// extractSpec turns the adjusted OCI spec into items (what the generator applies).
func extractSpec(s *rspec.Spec, cdi []string) *CState {
	c := newCState()
	for k, v := range s.Annotations {
		if strings.HasPrefix(k, "verif.resolved.") {
			c.Res[strings.TrimPrefix(k, "verif.resolved.")] = v
			continue
		}
		c.Ann[k] = v
	}
	if s.Process != nil {
		for _, e := range s.Process.Env {
			kv := strings.SplitN(e, "=", 2)
			v := ""
			if len(kv) == 2 {
				v = kv[1]
			}
			if _, dup := c.Env[kv[0]]; dup {
				c.Anomal = append(c.Anomal, fmt.Sprintf("environment variable %q listed more than once", kv[0]))
			}
			c.Env[kv[0]] = v
		}
		c.Args = append([]string(nil), s.Process.Args...)
		for _, l := range s.Process.Rlimits {
			c.Rlimits = append(c.Rlimits, l.Type+"="+rlimitDesc(l.Hard, l.Soft))
		}
		if s.Process.OOMScoreAdj != nil {
			c.Oom = strconv.Itoa(*s.Process.OOMScoreAdj)
		}
	}
	for _, m := range s.Mounts {
		if _, dup := c.Mounts[m.Destination]; dup {
			c.Anomal = append(c.Anomal, fmt.Sprintf("mount destination %q listed more than once", m.Destination))
		}
		c.Mounts[m.Destination] = mountDesc(m.Source, m.Type, m.Options)
	}
	if h := s.Hooks; h != nil {
		add := func(k string, hs []rspec.Hook) {
			for _, x := range hs {
				c.Hooks[k] = append(c.Hooks[k], hookDesc(x.Path, x.Args, x.Env, x.Timeout))
			}
		}
		add("prestart", h.Prestart)
		add("poststart", h.Poststart)
		add("poststop", h.Poststop)
		add("createruntime", h.CreateRuntime)
		add("createcontainer", h.CreateContainer)
		add("startcontainer", h.StartContainer)
	}
	if l := s.Linux; l != nil {
		for _, d := range l.Devices {
			if _, dup := c.Devs[d.Path]; dup {
				c.Anomal = append(c.Anomal, fmt.Sprintf("device path %q listed more than once", d.Path))
			}
			c.Devs[d.Path] = devDesc(d.Type, d.Major, d.Minor, d.FileMode, d.UID, d.GID)
		}
		c.CgPath = l.CgroupsPath
		if l.IntelRdt != nil && l.IntelRdt.ClosID != "" {
			c.Res["rdt"] = l.IntelRdt.ClosID
		}
		if r := l.Resources; r != nil {
			if r.BlockIO != nil && r.BlockIO.Weight != nil {
				c.Res["blockio"] = fmt.Sprintf("cls%d", *r.BlockIO.Weight)
			}
			if m := r.Memory; m != nil {
				if m.Limit != nil {
					c.Res["mem.limit"] = strconv.FormatInt(*m.Limit, 10)
				}
				if m.Swap != nil {
					c.Res["mem.swap"] = strconv.FormatInt(*m.Swap, 10)
				}
			}
			if p := r.CPU; p != nil {
				if p.Shares != nil {
					c.Res["cpu.shares"] = strconv.FormatUint(*p.Shares, 10)
				}
				if p.Quota != nil {
					c.Res["cpu.quota"] = strconv.FormatInt(*p.Quota, 10)
				}
				if p.Period != nil {
					c.Res["cpu.period"] = strconv.FormatUint(*p.Period, 10)
				}
				if p.RealtimeRuntime != nil {
					c.Res["cpu.rt_runtime"] = strconv.FormatInt(*p.RealtimeRuntime, 10)
				}
				if p.RealtimePeriod != nil {
					c.Res["cpu.rt_period"] = strconv.FormatUint(*p.RealtimePeriod, 10)
				}
				if p.Cpus != "" {
					c.Res["cpu.cpus"] = p.Cpus
				}
				if p.Mems != "" {
					c.Res["cpu.mems"] = p.Mems
				}
			}
			if r.Pids != nil {
				c.Res["pids"] = strconv.FormatInt(r.Pids.Limit, 10)
			}
			for _, h := range r.HugepageLimits {
				if _, dup := c.Huge[h.Pagesize]; dup {
					c.Anomal = append(c.Anomal, fmt.Sprintf("hugepage size %q listed more than once", h.Pagesize))
				}
				c.Huge[h.Pagesize] = strconv.FormatUint(h.Limit, 10)
			}
			for k, v := range r.Unified {
				c.Unified[k] = v
			}
		}
	}
	for _, n := range cdi {
		c.Res["cdi:"+n] = "present"
	}
	return c
}

// c13Model is the expected spec as items: removals first, then sets; the generator applies
// of the memory fields only the limit (and sets swap to it), and classes through resolvers.
func c13Model(w *C13W) *CState {
	// what the original spec carries of the original items
	st := newCState()
	if w.OrigBlk > 0 {
		st.Res["blockio"] = fmt.Sprintf("cls%d", w.OrigBlk)
	}
	if w.OrigRdt != "" {
		st.Res["rdt"] = w.OrigRdt
	}
	for _, o := range w.Orig {
		switch {
		case o.Kind == "blockio" || o.Kind == "rdt":
			// classes are not part of an OCI spec
		case strings.HasPrefix(o.Kind, "mem.") && o.Kind != "mem.limit" && o.Kind != "mem.swap":
			// not extracted (the generator never touches them; covered by the remainder check)
		default:
			st.set(o)
		}
	}
	for _, o := range w.Ops {
		if o.Act == "rm" || o.Act == "rmset" {
			st.remove(o)
		}
	}
	for _, o := range w.Ops {
		if o.Act != "set" && o.Act != "rmset" {
			continue
		}
		switch {
		case o.Kind == "mem.limit":
			st.Res["mem.limit"] = valStr(o.Kind, o.Val)
			st.Res["mem.swap"] = valStr(o.Kind, o.Val)
		case strings.HasPrefix(o.Kind, "mem."):
			// other memory fields are not applied by the generator (not in the statement's list)
		case o.Kind == "cdi":
			st.Res["cdi:"+o.Key] = "present"
		case o.Kind == "blockio" || o.Kind == "rdt":
			if v := valStr(o.Kind, o.Val); v == "" {
				delete(st.Res, o.Kind) // an empty class clears it
			} else {
				st.Res[o.Kind] = v
			}
		default:
			st.set(o)
		}
	}
	return st
}

// remainder is the spec with everything an adjustment can touch blanked: it must not change.
func c13Remainder(s *rspec.Spec) string {
	b, _ := json.Marshal(s)
	var c rspec.Spec
	json.Unmarshal(b, &c)
	c.Annotations, c.Mounts, c.Hooks = nil, nil, nil
	if c.Process != nil {
		c.Process.Env, c.Process.Args, c.Process.Rlimits, c.Process.OOMScoreAdj = nil, nil, nil, nil
	}
	if c.Linux != nil {
		c.Linux.Devices, c.Linux.CgroupsPath, c.Linux.IntelRdt = nil, "", nil
		if r := c.Linux.Resources; r != nil {
			r.Devices, r.HugepageLimits, r.Unified, r.Pids, r.CPU, r.BlockIO = nil, nil, nil, nil, nil, nil
			if r.Memory != nil {
				r.Memory.Limit, r.Memory.Swap = nil, nil
			}
		}
	}
	out, _ := json.Marshal(c)
	// canonical form without empty objects (a field created but left empty is not a change)
	var m map[string]any
	json.Unmarshal(out, &m)
	flat := map[string]string{}
	flatten("", m, flat)
	var sb strings.Builder
	for _, k := range sortedKeys(flat) {
		sb.WriteString(k + "=" + flat[k] + ";")
	}
	return sb.String()
}

func c13Run(t *testing.T, wl any, sc SchedCfg) *Result {
	w := wl.(*C13W)
	res := &Result{Diverged: -1}
	setFirst := map[string]bool{}
	for _, k := range w.SetFirst {
		setFirst[k] = true
	}
	orig := buildContainer("c13", "pod", w.Orig)
	want := c13Model(w)
	hasMounts := false
	for _, o := range w.Ops {
		if o.Kind == "mount" {
			hasMounts = true
		}
	}
	var first string
	firstPerm := -1
	maxKeys := 0
	defer simorder.SetSeed(0)
	for perm := 0; perm < 24; perm++ {
		perm := perm
		simorder.SetFixed(func(site string, n int) []int {
			if n > maxKeys {
				maxKeys = n
			}
			if n <= 4 {
				return nthPerm(n, perm)
			}
			// larger maps: a seeded sample of the permutations
			return rand.New(rand.NewSource(int64(sc.Seed) + int64(perm)*7919 + int64(n))).Perm(n)
		})
		spec0 := c13Spec(w, orig)
		rem0 := c13Remainder(spec0)
		side := newC03Side(c13Spec(w, orig))
		adj := buildAdjustC13(w.Ops, setFirst)
		if err := side.g.Adjust(adj); err != nil {
			res.Violate("C13.adjust-error", "Adjust failed: %v", err)
			break
		}
		got := extractSpec(side.g.Config, side.cdi)
		if d := want.diff(got, false); len(d) > 0 {
			res.Violate("C13.model", "map order #%d: the adjusted spec is not the original with the marked items removed and the given items set: %s; adjustment %s", perm, fmtDiffs(d), c13Desc(w))
		}
		// device cgroup rules: the original ones stay, and every device the adjustment sets is allowed
		// by a rule of its own type, major:minor and access (compared as multisets)
		wantRules := c13DevRules(spec0)
		for _, d := range adj.GetLinux().GetDevices() {
			if _, marked := d.IsMarkedForRemoval(); !marked {
				acc := "rw"
				if d.Type == "b" {
					acc = "rwm"
				}
				wantRules = append(wantRules, fmt.Sprintf("allow %s %d:%d %s", d.Type, d.Major, d.Minor, acc))
			}
		}
		gotRules := c13DevRules(side.g.Config)
		sort.Strings(wantRules)
		sort.Strings(gotRules)
		if strings.Join(wantRules, "; ") != strings.Join(gotRules, "; ") {
			res.Violate("C13.model", "map order #%d: device cgroup rules: want [%s], got [%s]; adjustment %s", perm, strings.Join(wantRules, "; "), strings.Join(gotRules, "; "), c13Desc(w))
		}
		if rem := c13Remainder(side.g.Config); rem != rem0 {
			res.Violate("C13.untouched", "map order #%d: parts of the spec that no adjustment names changed: before %s after %s", perm, clip(rem0), clip(rem))
		}
		if hasMounts {
			ms := side.g.Config.Mounts
			for i := range ms {
				for j := i + 1; j < len(ms); j++ {
					pi, pj := filepath.Clean(ms[i].Destination), filepath.Clean(ms[j].Destination)
					if pi != pj && strings.HasPrefix(pi, pj+"/") {
						res.Violate("C13.mount-order", "mount %q (index %d) comes before the mount of its parent directory %q (index %d)", pi, i, pj, j)
					}
				}
			}
		}
		b, _ := json.Marshal(side.g.Config)
		cur := string(b) + "|" + strings.Join(side.cdi, ",")
		if firstPerm < 0 {
			first, firstPerm = cur, perm
		} else if cur != first {
			res.Violate("C13.deterministic", "the same spec and adjustment give different results for map iteration orders #%d and #%d; adjustment %s", firstPerm, perm, c13Desc(w))
		}
		if len(res.Violations) > 0 {
			break
		}
	}
	h := fnv.New64a()
	b, _ := json.Marshal(w)
	h.Write(b)
	res.LogHash = h.Sum64()
	res.Steps = 24
	rmset := 0
	for _, o := range w.Ops {
		if o.Act == "rmset" {
			rmset++
		}
	}
	res.Nontrivial = maxKeys >= 2
	if rmset > 0 {
		res.Probe("C13.remove-then-set-in-one-adjustment")
	}
	if len(w.SetFirst) > 0 {
		res.Probe("C13.set-listed-before-its-removal-marker")
	}
	if maxKeys >= 2 {
		res.Probe("C13.map-with-two-or-more-keys-permuted")
	}
	res.Kinds = map[string]int{"permutation": 24}
	res.Summary = map[string]any{"adjustment": c13Desc(w), "largest_ranged_map": maxKeys, "permutations_applied": 24}
	return res
}

func c13DevRules(s *rspec.Spec) []string {
	var out []string
	if s.Linux == nil || s.Linux.Resources == nil {
		return out
	}
	for _, r := range s.Linux.Resources.Devices {
		v := "deny"
		if r.Allow {
			v = "allow"
		}
		maj, min := "*", "*"
		if r.Major != nil {
			maj = strconv.FormatInt(*r.Major, 10)
		}
		if r.Minor != nil {
			min = strconv.FormatInt(*r.Minor, 10)
		}
		out = append(out, fmt.Sprintf("%s %s %s:%s %s", v, r.Type, maj, min, r.Access))
	}
	return out
}

func c13Desc(w *C13W) string {
	var sb strings.Builder
	sb.WriteString("[orig:")
	for _, o := range w.Orig {
		fmt.Fprintf(&sb, " %s%s", o.Kind, keyStr(o.Key))
	}
	sb.WriteString("] {")
	for _, o := range w.Ops {
		fmt.Fprintf(&sb, " %s:%s%s", o.Act, o.Kind, keyStr(o.Key))
	}
	sb.WriteString(" }")
	if len(w.SetFirst) > 0 {
		fmt.Fprintf(&sb, " set-before-marker:%v", w.SetFirst)
	}
	s := sb.String()
	if len(s) > 700 {
		s = s[:700] + "..."
	}
	return s
}

func c13Shrink(wl any) []any {
	w := wl.(*C13W)
	var out []any
	for i := range w.Ops {
		c := jsonClone(w)
		c.Ops = append(c.Ops[:i], c.Ops[i+1:]...)
		out = append(out, c)
	}
	for i := range w.Orig {
		c := jsonClone(w)
		c.Orig = append(c.Orig[:i], c.Orig[i+1:]...)
		out = append(out, c)
	}
	if len(w.SetFirst) > 0 {
		c := jsonClone(w)
		c.SetFirst = nil
		out = append(out, c)
	}
	return out
}

func init() {
	register(&Property{
		ID: "C13", Gen: c13Gen, New: func() any { return &C13W{} }, Run: c13Run, Shrink: c13Shrink,
		Confs:      func(tier string) []Conf { return []Conf{{Name: "random", Weight: 1}} },
		Strategies: []string{"drain"},
		Components: map[string]string{
			"pkg/runtime-tools/generate (Generator.Adjust and helpers)": "real",
			"opencontainers/runtime-tools generate":                     "real",
			"pkg/api helpers (markers, ToOCI conversions)":              "real",
			"map iteration order":                                       "simulated (simorder): every permutation index 0..23 per case",
			"spec / adjustment generator and model":                     "harness",
		},
		Rule: "random OCI specs (process and linux sections, original annotations, env, mounts, devices, hooks, rlimits, resources) and adjustments mixing set / remove / remove-then-set (the set listed before or after its removal marker) over every adjustable field; each case is applied under 24 map-iteration orders of the ranged maps (every permutation for maps of up to 4 keys, sampled beyond); " +
			"non-trivial = some ranged map had at least two keys; distinct = distinct (spec, adjustment) pair",
	})
}
