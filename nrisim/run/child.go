package run

import (
	"encoding/json"
	"fmt"
	"math/rand"
	"os"
	"runtime"
	"runtime/debug"
	"sort"
	"strings"
	"testing"
	"time"

	"nrisim/sim"
	"nrisim/simorder"
)

// Job is what the driver asks one child process to do.
type Job struct {
	Property  string  `json:"property"`
	Tier      string  `json:"tier"`
	Seed      uint64  `json:"seed"`
	Worker    int     `json:"worker"`
	Workers   int     `json:"workers"`
	Mode      string  `json:"mode"` // explore | replay | minimise | selftest
	DeadlineS float64 `json:"deadline_s"`
	MaxRuns   int     `json:"max_runs"`
	First     int     `json:"first"` // first run index (resuming after a recycled child)
	Out       string  `json:"out"`
	Replay    string  `json:"replay,omitempty"`
	Recycle   int     `json:"recycle"` // exit (code 0, "recycle" line) after this many runs
	MaxViol   int     `json:"max_viol"`
}

// ReplayFile is the self-contained description of one execution.
type ReplayFile struct {
	Property string          `json:"property"`
	Conf     string          `json:"conf"`
	Index    int             `json:"index"`
	RunSeed  uint64          `json:"run_seed"`
	Sched    SchedCfg        `json:"sched"`
	Workload json.RawMessage `json:"workload"`
	Expect   []Violation     `json:"expect,omitempty"`
	LogHash  uint64          `json:"log_hash"`
	Steps    int             `json:"steps"`
	Note     string          `json:"note,omitempty"`
	RepoTree string          `json:"repo_tree,omitempty"`
	Engine   string          `json:"engine"`
}

const EngineVersion = "nrisim-1"

func propHash(id string) uint64 {
	var h uint64 = 1469598103934665603
	for _, c := range []byte(id) {
		h = (h ^ uint64(c)) * 1099511628211
	}
	return h
}

// RunSeed derives the seed of run i of a batch.
func RunSeed(seed uint64, prop string, i int) uint64 {
	return sim.SplitMix(sim.SplitMix(seed^propHash(prop)) + uint64(i)*0x9e3779b97f4a7c15)
}

// planRun decides configuration, workload and strategy of run i from its seed alone.
func planRun(p *Property, tier string, seed uint64, i int) (conf string, idx int, w any, sc SchedCfg) {
	rs := RunSeed(seed, p.ID, i)
	rng := rand.New(rand.NewSource(int64(rs)))
	confs := p.Confs(tier)
	// enumerated configurations first
	off := 0
	for _, c := range confs {
		if c.Grid > 0 {
			if i < off+c.Grid {
				conf, idx = c.Name, i-off
				break
			}
			off += c.Grid
		}
	}
	if conf == "" {
		tot := 0
		for _, c := range confs {
			if c.Grid == 0 {
				tot += c.Weight
			}
		}
		x := rng.Intn(tot)
		for _, c := range confs {
			if c.Grid == 0 {
				if x < c.Weight {
					conf = c.Name
					break
				}
				x -= c.Weight
			}
		}
		idx = i - off
	}
	w = p.Gen(rng, conf, idx)
	strats := p.Strategies
	if len(strats) == 0 {
		strats = []string{"uniform", "pct", "starve", "lag"}
	}
	sc = SchedCfg{Seed: sim.SplitMix(rs ^ 0x5c4ed), Strategy: strats[rng.Intn(len(strats))]}
	return
}

type foundViolation struct {
	File    string    `json:"file"`
	Oracles []string  `json:"oracles"`
	First   Violation `json:"first"`
	Index   int       `json:"index"`
	Conf    string    `json:"conf"`
}

type childSummary struct {
	Ev         string            `json:"ev"`
	Worker     int               `json:"worker"`
	Runs       int               `json:"runs"`
	Next       int               `json:"next"` // next run index not yet executed by this worker
	Finished   bool              `json:"finished"`
	Nontrivial int               `json:"nontrivial"`
	Hashes     []string          `json:"hashes"`     // distinct log hashes of non-trivial runs
	AllHashes  int               `json:"all_hashes"` // distinct log hashes of all runs
	Steps      int64             `json:"steps"`
	SimMs      int64             `json:"sim_ms"`
	Kinds      map[string]int    `json:"kinds"`
	Probes     map[string]int    `json:"probes"`
	Skipped    map[string]int    `json:"skipped"`
	Strategies map[string]int    `json:"strategies"`
	Confs      map[string]int    `json:"confs"`
	Net        sim.NetStats      `json:"net"`
	LockPairs  int               `json:"lock_pairs_max"`
	Leaked     int               `json:"leaked"`
	Diverged   int               `json:"diverged"`
	Samples    []any             `json:"samples"`
	Violations []foundViolation  `json:"violations"`
	WallS      float64           `json:"wall_s"`
	GridDone   map[string]int    `json:"grid_done"`
	FuncsHit   []int             `json:"funcs_hit"`
	Rule       string            `json:"rule"`
	Components map[string]string `json:"components"`
}

func writeJSON(path string, v any) error {
	b, err := json.MarshalIndent(v, "", " ")
	if err != nil {
		return err
	}
	tmp := path + ".tmp"
	if err := os.WriteFile(tmp, b, 0o644); err != nil {
		return err
	}
	return os.Rename(tmp, path)
}

func appendLine(path string, v any) {
	b, _ := json.Marshal(v)
	f, err := os.OpenFile(path, os.O_APPEND|os.O_CREATE|os.O_WRONLY, 0o644)
	if err != nil {
		fmt.Fprintln(os.Stderr, "child: cannot write", path, err)
		os.Exit(2)
	}
	f.Write(append(b, '\n'))
	f.Close()
}

// watchdog aborts the process when one run takes too long in real time.
type watchdog struct{ ch chan string }

func newWatchdog(limit time.Duration) *watchdog {
	w := &watchdog{ch: make(chan string, 1)}
	go func() {
		cur := ""
		var timer <-chan time.Time
		for {
			select {
			case c := <-w.ch:
				cur = c
				if c == "" {
					timer = nil
				} else {
					timer = time.After(limit)
				}
			case <-timer:
				buf := make([]byte, 1<<20)
				n := runtime.Stack(buf, true)
				fmt.Fprintf(os.Stderr, "WATCHDOG: run %s exceeded %v of real time\n%s\n", cur, limit, buf[:n])
				os.Exit(3)
			}
		}
	}()
	return w
}

var gcCount int

// betweenRuns collects garbage outside any bubble: every 16 runs, or at once when the heap is large.
func betweenRuns() {
	gcCount++
	if gcCount%16 == 0 {
		runtime.GC()
		return
	}
	var ms runtime.MemStats
	runtime.ReadMemStats(&ms)
	if ms.HeapAlloc > 256<<20 {
		runtime.GC()
	}
}

// ChildMain is the entry point of a child process.
func ChildMain(t *testing.T) {
	jp := os.Getenv("VERIF_JOB")
	if jp == "" {
		t.Skip("VERIF_JOB not set")
	}
	b, err := os.ReadFile(jp)
	if err != nil {
		fmt.Fprintln(os.Stderr, err)
		os.Exit(2)
	}
	var job Job
	if err := json.Unmarshal(b, &job); err != nil {
		fmt.Fprintln(os.Stderr, err)
		os.Exit(2)
	}
	// Goroutine order between two scheduling points must not depend on the garbage collector
	// (assists and preemption reorder goroutines): collect only between runs.
	debug.SetGCPercent(-1)
	debug.SetMemoryLimit(3 << 30)
	p := Properties[job.Property]
	if p == nil {
		fmt.Fprintln(os.Stderr, "unknown property", job.Property)
		os.Exit(2)
	}
	switch job.Mode {
	case "explore":
		childExplore(t, p, &job)
	case "replay":
		childReplay(t, p, &job)
	case "minimise":
		childMinimise(t, p, &job)
	case "selftest":
		childSelftest(t, p, &job)
	default:
		fmt.Fprintln(os.Stderr, "unknown mode", job.Mode)
		os.Exit(2)
	}
}

func childExplore(t *testing.T, p *Property, job *Job) {
	start := time.Now()
	wd := newWatchdog(300 * time.Second)
	sum := &childSummary{Ev: "summary", Worker: job.Worker, Kinds: map[string]int{}, Probes: map[string]int{}, Skipped: map[string]int{},
		Strategies: map[string]int{}, Confs: map[string]int{}, GridDone: map[string]int{}}
	hashes := map[uint64]struct{}{}
	all := map[uint64]struct{}{}
	oraclesSeen := map[string]int{}
	gridTotal := 0
	for _, c := range p.Confs(job.Tier) {
		gridTotal += c.Grid
	}
	i := job.First
	if i < job.Worker {
		i = job.Worker
	}
	deadline := start.Add(time.Duration(job.DeadlineS * float64(time.Second)))
	for ; i < job.MaxRuns; i += job.Workers {
		// the enumerated part is always completed; the sampled part stops at the deadline
		if time.Now().After(deadline) && i >= gridTotal {
			break
		}
		if job.Recycle > 0 && sum.Runs >= job.Recycle {
			break
		}
		conf, idx, w, sc := planRun(p, job.Tier, job.Seed, i)
		wj, _ := json.Marshal(w)
		cur := &ReplayFile{Property: p.ID, Conf: conf, Index: i, RunSeed: RunSeed(job.Seed, p.ID, i), Sched: sc, Workload: wj, Engine: EngineVersion}
		cb, _ := json.Marshal(cur)
		os.WriteFile(job.Out+".cur", cb, 0o644)
		wd.ch <- fmt.Sprintf("%s i=%d", p.ID, i)
		res := p.Run(t, w, sc)
		wd.ch <- ""
		betweenRuns()
		_ = idx
		sum.Runs++
		sum.Steps += int64(res.Steps)
		sum.SimMs += res.SimTimeMs
		sum.Strategies[sc.Strategy]++
		sum.Confs[conf]++
		for k, v := range res.Kinds {
			sum.Kinds[k] += v
		}
		for k, v := range res.Probes {
			sum.Probes[k] += v
		}
		for k, v := range res.Skipped {
			sum.Skipped[k] += v
		}
		sum.Net.Delivered += res.Net.Delivered
		sum.Net.Chunked += res.Net.Chunked
		sum.Net.EOFs += res.Net.EOFs
		sum.Net.Resets += res.Net.Resets
		sum.Net.Cuts += res.Net.Cuts
		sum.Net.Kills += res.Net.Kills
		sum.Net.BytesDelivered += res.Net.BytesDelivered
		sum.Net.Stalls += res.Net.Stalls
		sum.Net.PartialWrites += res.Net.PartialWrites
		sum.Net.Freezes += res.Net.Freezes
		if res.LockPairs > sum.LockPairs {
			sum.LockPairs = res.LockPairs
		}
		if res.Leaked {
			sum.Leaked++
		}
		all[res.LogHash] = struct{}{}
		if res.Nontrivial {
			sum.Nontrivial++
			hashes[res.LogHash] = struct{}{}
		}
		if len(sum.Samples) < 2 && res.Nontrivial && len(res.Violations) == 0 {
			sum.Samples = append(sum.Samples, map[string]any{"index": i, "conf": conf, "strategy": sc.Strategy, "workload": json.RawMessage(wj), "steps": res.Steps, "outcome": res.Summary})
		}
		if len(res.Violations) > 0 {
			ors := map[string]bool{}
			for _, v := range res.Violations {
				ors[v.Oracle] = true
			}
			olist := make([]string, 0, len(ors))
			for o := range ors {
				olist = append(olist, o)
			}
			sort.Strings(olist)
			key := strings.Join(olist, "+")
			oraclesSeen[key]++
			if oraclesSeen[key] <= 3 && len(sum.Violations) < 40 {
				cur.Sched.Replay = res.Log
				cur.Expect = res.Violations
				cur.LogHash = res.LogHash
				cur.Steps = res.Steps
				file := fmt.Sprintf("%s.viol-%d.json", job.Out, i)
				writeJSON(file, cur)
				sum.Violations = append(sum.Violations, foundViolation{File: file, Oracles: olist, First: res.Violations[0], Index: i, Conf: conf})
			} else {
				sum.Violations = append(sum.Violations, foundViolation{Oracles: olist, First: res.Violations[0], Index: i, Conf: conf})
			}
			if job.MaxViol > 0 && len(sum.Violations) >= job.MaxViol {
				i += job.Workers
				break
			}
		}
	}
	sum.Next = i
	sum.Rule, sum.Components = p.Rule, p.Components
	sum.FuncsHit = simorder.HitSet()
	sum.Finished = i >= job.MaxRuns || time.Now().After(deadline)
	for h := range hashes {
		sum.Hashes = append(sum.Hashes, fmt.Sprintf("%x", h))
	}
	sort.Strings(sum.Hashes)
	sum.AllHashes = len(all)
	sum.WallS = time.Since(start).Seconds()
	appendLine(job.Out, sum)
	os.Remove(job.Out + ".cur")
}

func loadReplay(p *Property, path string) (*ReplayFile, any) {
	b, err := os.ReadFile(path)
	if err != nil {
		fmt.Fprintln(os.Stderr, err)
		os.Exit(2)
	}
	var rf ReplayFile
	if err := json.Unmarshal(b, &rf); err != nil {
		fmt.Fprintln(os.Stderr, "replay file:", err)
		os.Exit(2)
	}
	w := p.New()
	if err := json.Unmarshal(rf.Workload, w); err != nil {
		fmt.Fprintln(os.Stderr, "replay workload:", err)
		os.Exit(2)
	}
	return &rf, w
}

type replayOut struct {
	Ev         string      `json:"ev"`
	Violations []Violation `json:"violations"`
	LogHash    uint64      `json:"log_hash"`
	Expected   uint64      `json:"expected_hash"`
	SameHash   bool        `json:"same_hash"`
	Diverged   int         `json:"diverged"`
	Steps      int         `json:"steps"`
	SameOracle bool        `json:"same_oracle"`
	Trace      []string    `json:"trace,omitempty"`
}

func oracleSet(vs []Violation) string {
	m := map[string]bool{}
	for _, v := range vs {
		m[v.Oracle] = true
	}
	return strings.Join(sortedKeys(m), "+")
}

func childReplay(t *testing.T, p *Property, job *Job) {
	rf, w := loadReplay(p, job.Replay)
	wd := newWatchdog(300 * time.Second)
	wd.ch <- "replay"
	sc := rf.Sched
	sc.Trace = os.Getenv("VERIF_TRACE") != ""
	res := p.Run(t, w, sc)
	wd.ch <- ""
	out := &replayOut{Ev: "replay", Violations: res.Violations, LogHash: res.LogHash, Expected: rf.LogHash, SameHash: res.LogHash == rf.LogHash,
		Diverged: res.Diverged, Steps: res.Steps, SameOracle: oracleSet(res.Violations) == oracleSet(rf.Expect)}
	if sc.Trace {
		out.Trace = res.Trace
	}
	appendLine(job.Out, out)
}

// childMinimise shrinks the workload and the schedule of a violating execution while the
// same set of oracle ids keeps firing. The result is replayed once more to confirm it.
func childMinimise(t *testing.T, p *Property, job *Job) {
	rf, w := loadReplay(p, job.Replay)
	want := oracleSet(rf.Expect)
	wantFirst := ""
	if len(rf.Expect) > 0 {
		wantFirst = rf.Expect[0].Oracle
	}
	budget := 300
	deadline := time.Now().Add(time.Duration(job.DeadlineS * float64(time.Second)))
	wd := newWatchdog(300 * time.Second)
	runs := 0
	try := func(w any, sc SchedCfg) *Result {
		runs++
		wd.ch <- "minimise"
		r := p.Run(t, w, sc)
		wd.ch <- ""
		return r
	}
	same := func(r *Result) bool {
		if len(r.Violations) == 0 {
			return false
		}
		if oracleSet(r.Violations) == want {
			return true
		}
		for _, v := range r.Violations {
			if v.Oracle == wantFirst {
				return true
			}
		}
		return false
	}
	best, bestSc := w, rf.Sched
	bestRes := try(best, bestSc)
	if !same(bestRes) {
		appendLine(job.Out, map[string]any{"ev": "minimise", "ok": false, "reason": "original does not reproduce", "got": bestRes.Violations})
		return
	}
	// schedules to try for each candidate: free runs (no recorded keys) under a few seeds and
	// strategies, cheapest first
	scheds := func(orig SchedCfg) []SchedCfg {
		out := []SchedCfg{{Seed: orig.Seed, Strategy: "drain"}, {Seed: orig.Seed, Strategy: orig.Strategy}}
		for k := uint64(1); k <= 4; k++ {
			out = append(out, SchedCfg{Seed: sim.SplitMix(orig.Seed + k), Strategy: orig.Strategy})
		}
		return out
	}
	improved := true
	for improved && runs < budget && time.Now().Before(deadline) {
		improved = false
		if p.Shrink == nil {
			break
		}
		for _, cand := range p.Shrink(best) {
			if runs >= budget || time.Now().After(deadline) {
				break
			}
			ok := false
			for _, sc := range scheds(rf.Sched) {
				r := try(cand, sc)
				if same(r) {
					sc.Replay = r.Log
					best, bestSc, bestRes = cand, sc, r
					ok = true
					break
				}
				if runs >= budget {
					break
				}
			}
			if ok {
				improved = true
				break
			}
		}
	}
	// schedule simplification: canonical-first ("drain") with no recorded keys
	if r := try(best, SchedCfg{Seed: bestSc.Seed, Strategy: "drain"}); same(r) {
		bestSc = SchedCfg{Seed: bestSc.Seed, Strategy: "drain", Replay: r.Log}
		bestRes = r
	}
	if len(bestSc.Replay) == 0 {
		bestSc.Replay = bestRes.Log
	}
	wj, _ := json.Marshal(best)
	out := &ReplayFile{Property: p.ID, Conf: rf.Conf, Index: rf.Index, RunSeed: rf.RunSeed, Sched: bestSc, Workload: wj, Expect: bestRes.Violations,
		LogHash: bestRes.LogHash, Steps: bestRes.Steps, Engine: EngineVersion, Note: fmt.Sprintf("minimised from %s in %d executions", job.Replay, runs)}
	dst := strings.TrimSuffix(job.Replay, ".json") + ".min.json"
	writeJSON(dst, out)
	// confirm
	_, w2 := loadReplay(p, dst)
	r2 := try(w2, bestSc)
	appendLine(job.Out, map[string]any{"ev": "minimise", "ok": same(r2), "file": dst, "runs": runs, "steps": bestRes.Steps, "same_hash": r2.LogHash == bestRes.LogHash,
		"first": bestRes.Violations[0]})
}

// childSelftest runs run indices [First, MaxRuns) and prints one line per run with the
// event-log hash; the driver diffs these across processes and GOMAXPROCS values.
func childSelftest(t *testing.T, p *Property, job *Job) {
	wd := newWatchdog(300 * time.Second)
	type line struct {
		I    int    `json:"i"`
		Hash string `json:"h"`
		V    string `json:"v"`
	}
	var lines []line
	for i := job.First; i < job.MaxRuns; i++ {
		_, _, w, sc := planRun(p, job.Tier, job.Seed, i)
		wd.ch <- fmt.Sprintf("selftest %d", i)
		res := p.Run(t, w, sc)
		wd.ch <- ""
		betweenRuns()
		lines = append(lines, line{I: i, Hash: fmt.Sprintf("%x", res.LogHash), V: oracleSet(res.Violations)})
		if d := os.Getenv("VERIF_DUMPLOG"); d != "" {
			wj, _ := json.Marshal(w)
			os.WriteFile(fmt.Sprintf("%s/%d.%d.log", d, i, os.Getpid()), []byte(string(wj)+"\n"+sc.Strategy+"\n"+strings.Join(res.Log, "\n")+"\n"), 0o644)
		}
	}
	appendLine(job.Out, map[string]any{"ev": "selftest", "lines": lines})
}
