package run

import (
	"context"
	"errors"
	"fmt"
	"math/rand"
	stdnet "net"
	"strings"
	"testing"
	"time"

	"github.com/containerd/nri/pkg/api"
	"github.com/containerd/nri/pkg/stub"
	"google.golang.org/protobuf/proto"
)

// C19 - unsolicited updates reach the runtime once, unchanged, and never concurrently.

type C19Call struct {
	N    int   `json:"n"`    // number of updates in the list
	Fail []int `json:"fail"` // indices the runtime callback reports as failed
	Err  bool  `json:"err"`  // the callback returns an error
}

type C19W struct {
	Plugins   []C06Plugin `json:"plugins"`
	Calls     [][]C19Call `json:"calls"`   // per plugin
	Callers   [][]string  `json:"callers"` // lifecycle events per runtime caller
	Unstarted bool        `json:"unstarted"`
	// Kills: the plugin's connection dies (or its stub is stopped) while the runtime callback of
	// the given call is in progress.
	Kills []C19Kill `json:"kills,omitempty"`
	// SlowMs > 0: every plugin handler takes that much simulated time (below the request timeout of
	// 400 ms used in such runs), so that a request holds the adaptation lock for longer than one
	// request timeout while unsolicited updates wait behind it.
	SlowMs int `json:"slow_ms,omitempty"`
	// StartBlocked: the never-started stub's Start() is in progress (its dialer never returns) while
	// UpdateContainers is called on it: it must still report "no service" without blocking.
	StartBlocked bool `json:"start_blocked,omitempty"`
	// CfgUpdate: the named plugin issues one unsolicited update from inside its Configure handler.
	CfgUpdate string `json:"cfg_update,omitempty"`
	// Late: that many further plugins register while the updates and requests are under way
	Late int `json:"late,omitempty"`
}

type C19Kill struct {
	Plugin int    `json:"plugin"`
	Call   int    `json:"call"`
	Mode   string `json:"mode"` // kill | stop
}

func c19Gen(rng *rand.Rand, conf string, idx int) any {
	w := &C19W{Unstarted: rng.Intn(3) == 0}
	if rng.Intn(3) == 0 {
		w.Late = 1 + rng.Intn(2)
	}
	names := []string{"uma", "vic", "wes", "xia"}
	n := 1 + rng.Intn(4)
	for k := 0; k < n; k++ {
		w.Plugins = append(w.Plugins, C06Plugin{Name: names[k], Idx: fmt.Sprintf("%02d", rng.Intn(100))})
		var calls []C19Call
		for c, nc := 0, rng.Intn(4); c < nc; c++ {
			cl := C19Call{N: rng.Intn(4)}
			for j := 0; j < cl.N; j++ {
				if rng.Intn(3) == 0 {
					cl.Fail = append(cl.Fail, j)
				}
			}
			cl.Err = rng.Intn(5) == 0
			calls = append(calls, cl)
		}
		w.Calls = append(w.Calls, calls)
	}
	if rng.Intn(4) == 0 {
		w.SlowMs = 250
	}
	if w.Unstarted && rng.Intn(2) == 0 {
		w.StartBlocked = true
	}
	if rng.Intn(4) == 0 {
		w.CfgUpdate = w.Plugins[rng.Intn(n)].Name
	}
	if rng.Intn(3) == 0 {
		k := rng.Intn(n)
		if len(w.Calls[k]) > 0 {
			w.Kills = append(w.Kills, C19Kill{Plugin: k, Call: rng.Intn(len(w.Calls[k])), Mode: pick(rng, []string{"kill", "stop"})})
		}
	}
	for c, m := 0, rng.Intn(4); c < m; c++ {
		var evs []string
		for k, ne := 0, 1+rng.Intn(4); k < ne; k++ {
			evs = append(evs, pick(rng, EventNames))
		}
		w.Callers = append(w.Callers, evs)
	}
	return w
}

func c19Updates(plugin string, call int, n int) []*api.ContainerUpdate {
	var us []*api.ContainerUpdate
	for j := 0; j < n; j++ {
		u := &api.ContainerUpdate{ContainerId: fmt.Sprintf("u-%s-%d-%d", plugin, call, j)}
		u.SetLinuxMemoryLimit(int64(1000*call + j))
		u.SetLinuxCPUShares(uint64(7 + j))
		if j%2 == 1 {
			u.AddLinuxHugepageLimit("2M", uint64(j))
			u.IgnoreFailure = true
		}
		us = append(us, u)
	}
	return us
}

type c19Ret struct {
	Failed []*api.ContainerUpdate
	Err    error
	Done   bool
}

func c19Run(t *testing.T, wl any, sc SchedCfg) *Result {
	w := wl.(*C19W)
	return Bubble(t, sc, func(e *Env) {
		res := e.Res
		treq := hugeTimeout
		if w.SlowMs > 0 {
			treq = 400 * time.Millisecond
			e.S.IdleLimit = 400
			e.S.Probe("C19.requests-longer-than-the-request-timeout")
		}
		h := NewH1(e, treq, hugeTimeout)
		h.UpdGate = true
		if w.SlowMs > 0 {
			h.Script = func(plugin, rpc, token string) *Reply {
				if rpc == "Synchronize" {
					return nil
				}
				return &Reply{SleepMs: w.SlowMs}
			}
		}
		// which call does an update list belong to?
		callOf := func(u []*api.ContainerUpdate) (string, int, bool) {
			if len(u) == 0 {
				return "", 0, false
			}
			parts := strings.Split(u[0].GetContainerId(), "-")
			if len(parts) != 4 {
				return "", 0, false
			}
			var c int
			fmt.Sscanf(parts[2], "%d", &c)
			return parts[1], c, true
		}
		pidx := map[string]int{}
		for k, p := range w.Plugins {
			pidx[p.Name] = k
		}
		h.UpdScript = func(n int, u []*api.ContainerUpdate) ([]*api.ContainerUpdate, string) {
			pn, c, ok := callOf(u)
			if !ok || strings.HasSuffix(pn, "@cfg") {
				return nil, ""
			}
			cl := w.Calls[pidx[pn]][c]
			var failed []*api.ContainerUpdate
			for _, j := range cl.Fail {
				if j < len(u) {
					failed = append(failed, u[j])
				}
			}
			if cl.Err {
				return failed, fmt.Sprintf("updfn-error-%s-%d", pn, c)
			}
			return failed, ""
		}
		plugs := make([]*Plug, len(w.Plugins))
		var cfgRet *c19Ret
		for k, pw := range w.Plugins {
			plugs[k] = h.AddPlugin(pw.Name, pw.Idx, 0)
			if pw.Name == w.CfgUpdate {
				p := plugs[k]
				cfgRet = &c19Ret{}
				p.OnConfigure = func() {
					f, err := p.Stub.UpdateContainers(c19Updates(p.Name+"@cfg", 0, 2))
					cfgRet.Failed, cfgRet.Err, cfgRet.Done = f, err, true
				}
				e.S.Probe("C19.update-from-configure-handler")
			}
			h.StartTask(plugs[k])
		}
		var noSvcErr error
		noSvcDone := false
		if w.Unstarted {
			// a stub that is never started: must report "no service" without blocking
			opts := []stub.Option{stub.WithPluginName("never"), stub.WithPluginIdx("99"), stub.WithOnClose(func() {})}
			if w.StartBlocked {
				opts = append(opts, stub.WithDialer(func(string) (stdnet.Conn, error) {
					<-e.Hung() // the runtime's socket never answers
					return nil, fmt.Errorf("dial abandoned")
				}))
			} else {
				opts = append(opts, stub.WithConnection(e.S.Listen().Dial("never")))
			}
			st, err := stub.New(&Plug{h: h, Name: "never"}, opts...)
			if err != nil {
				panic(err)
			}
			if w.StartBlocked {
				go func() {
					e.S.SetGName("blocked-start")
					st.Start(context.Background())
				}()
				e.S.Probe("C19.update-while-start-in-progress")
			}
			e.Task("unstarted", func() {
				_, noSvcErr = st.UpdateContainers(c19Updates("never", 0, 2))
				noSvcDone = true
			})
		}
		if err := e.RunUntil(200000, func() bool { return e.TasksDone() && h.L.AcceptCount() >= len(plugs)+1 }); err != nil {
			res.Violate("C19.setup", "registration: %v; pending %v", err, e.S.Pending())
			return
		}
		deadFrom := map[int]int{} // plugin -> first call whose outcome is not asserted
		for ki, kl := range w.Kills {
			ki, kl := ki, kl
			if kl.Plugin >= len(plugs) || kl.Call >= len(w.Calls[kl.Plugin]) || w.Calls[kl.Plugin][kl.Call].N == 0 {
				continue
			}
			deadFrom[kl.Plugin] = kl.Call
			pname := w.Plugins[kl.Plugin].Name
			e.S.Add(&simItem{Key: fmt.Sprintf("fault:%s:%s:%d", kl.Mode, pname, kl.Call), Owner: "fault",
				Ready: func() bool {
					h.mu.Lock()
					defer h.mu.Unlock()
					for _, ev := range h.UpdLog {
						if pn, c, ok := callOf(ev.Updates); ok && pn == pname && c == kl.Call && ev.Exit < 0 {
							return true
						}
					}
					return false
				},
				Fire: func(int) {
					e.S.Probe("C19.fault." + kl.Mode + "-during-callback")
					if kl.Mode == "kill" {
						plugs[kl.Plugin].Conn.Kill(false)
					} else {
						go func() { e.S.SetGName(fmt.Sprintf("fault-stop-%d", ki)); plugs[kl.Plugin].Stub.Stop() }()
					}
				}})
		}
		for k := 0; k < w.Late; k++ {
			lp := h.AddPlugin(fmt.Sprintf("zed%d", k), fmt.Sprintf("%02d", 90+k), 0)
			h.StartTask(lp)
			e.S.Probe("C19.plugin-registers-during-the-updates")
		}
		rets := make([][]*c19Ret, len(plugs))
		for k, p := range plugs {
			k, p := k, p
			rets[k] = make([]*c19Ret, len(w.Calls[k]))
			for c := range rets[k] {
				rets[k][c] = &c19Ret{}
			}
			if len(w.Calls[k]) == 0 {
				continue
			}
			e.Task("updater-"+p.Name, func() {
				for c, cl := range w.Calls[k] {
					f, err := p.Stub.UpdateContainers(c19Updates(p.Name, c, cl.N))
					rets[k][c].Failed, rets[k][c].Err, rets[k][c].Done = f, err, true
				}
			})
		}
		var reqs []*c06Req
		for ci, evs := range w.Callers {
			ci := ci
			mine := make([]*c06Req, len(evs))
			for k, ev := range evs {
				mine[k] = &c06Req{ID: fmt.Sprintf("r%d.%d", ci, k), Event: ev, Inv: -1, Ret: -1}
				reqs = append(reqs, mine[k])
			}
			e.Task(fmt.Sprintf("caller%d", ci), func() {
				for _, rq := range mine {
					pod := &api.PodSandbox{Id: "pod-" + rq.ID}
					ctr := &api.Container{Id: rq.ID, PodSandboxId: pod.Id}
					if IsPodEvent(rq.Event) {
						pod.Id, ctr = rq.ID, nil
					}
					rq.Inv = e.S.Steps
					rq.Resp, rq.Err = h.Call(rq.Event, pod, ctr, nil)
					rq.Ret = e.S.Steps
				}
			})
		}
		if err := e.RunUntil(400000, func() bool { return e.TasksDone() }); err != nil {
			res.Violate("C19.liveness", "calls did not complete: %v; pending %v", err, e.S.Pending())
			return
		}
		// oracles
		if w.Unstarted {
			if !noSvcDone || !errors.Is(noSvcErr, stub.ErrNoService) {
				res.Violate("C19.no-service", "UpdateContainers on a stub that was never started returned %v (done=%v), want ErrNoService", noSvcErr, noSvcDone)
			}
		}
		if cfgRet != nil {
			n := 0
			for _, ev := range h.UpdLog {
				if len(ev.Updates) > 0 && strings.HasPrefix(ev.Updates[0].GetContainerId(), "u-"+w.CfgUpdate+"@cfg-") {
					n++
				}
			}
			if !cfgRet.Done || cfgRet.Err != nil || n != 1 {
				res.Violate("C19.exactly-once", "plugin %s issued an unsolicited update from its Configure handler: returned=%v err=%v, the runtime callback saw it %d times", w.CfgUpdate, cfgRet.Done, cfgRet.Err, n)
			}
			if p := h.Plugs[w.CfgUpdate]; p != nil && p.StartErr != nil {
				res.Violate("C19.exactly-once", "plugin %s, which updates from its Configure handler, failed to start: %v", w.CfgUpdate, p.StartErr)
			}
		}
		seen := map[string]int{}
		for _, ev := range h.UpdLog {
			pn, c, ok := callOf(ev.Updates)
			if ok && strings.HasSuffix(pn, "@cfg") {
				continue // the update issued from a Configure handler is judged above
			}
			if !ok {
				if len(ev.Updates) == 0 {
					seen["empty"]++
					continue
				}
				res.Violate("C19.payload", "runtime callback received an update list no plugin sent: %v", ev.Updates)
				continue
			}
			key := fmt.Sprintf("%s/%d", pn, c)
			seen[key]++
			want := c19Updates(pn, c, w.Calls[pidx[pn]][c].N)
			if len(want) != len(ev.Updates) {
				res.Violate("C19.payload", "call %s: callback received %d updates, plugin sent %d", key, len(ev.Updates), len(want))
				continue
			}
			for j := range want {
				if !proto.Equal(want[j], ev.Updates[j]) {
					res.Violate("C19.payload", "call %s: update %d arrived as %v, sent %v", key, j, ev.Updates[j], want[j])
				}
			}
		}
		empties := 0
		for k, p := range w.Plugins {
			for c, cl := range w.Calls[k] {
				key := fmt.Sprintf("%s/%d", p.Name, c)
				r := rets[k][c]
				if df, dead := deadFrom[k]; dead && c >= df {
					// the plugin's connection died during call df: only "at most once" is asserted from there on
					if seen[key] > 1 {
						res.Violate("C19.exactly-once", "call %s reached the runtime callback %d times", key, seen[key])
					}
					if cl.N == 0 {
						empties += 0
					}
					if !r.Done {
						res.Violate("C19.liveness", "call %s of a plugin whose connection died never returned", key)
					}
					continue
				}
				if cl.N == 0 {
					empties++
				} else if seen[key] != 1 {
					res.Violate("C19.exactly-once", "call %s reached the runtime callback %d times", key, seen[key])
				}
				if !r.Done {
					res.Violate("C19.liveness", "call %s never returned", key)
					continue
				}
				if cl.Err {
					want := fmt.Sprintf("updfn-error-%s-%d", p.Name, c)
					if cl.N > 0 && (r.Err == nil || !strings.Contains(r.Err.Error(), want)) {
						res.Violate("C19.result", "call %s: callback failed with %q but the plugin got err=%v", key, want, r.Err)
					}
					continue
				}
				if r.Err != nil {
					res.Violate("C19.result", "call %s failed: %v", key, r.Err)
					continue
				}
				sent := c19Updates(p.Name, c, cl.N)
				if len(r.Failed) != len(cl.Fail) {
					res.Violate("C19.result", "call %s: callback reported %d failed updates, plugin got %d", key, len(cl.Fail), len(r.Failed))
					continue
				}
				for x, j := range cl.Fail {
					if !proto.Equal(r.Failed[x], sent[j]) {
						res.Violate("C19.result", "call %s: failed update %d arrived as %v, want %v", key, x, r.Failed[x], sent[j])
					}
				}
			}
		}
		deadEmpties := 0
		for k := range w.Plugins {
			if df, dead := deadFrom[k]; dead {
				for c, cl := range w.Calls[k] {
					if c >= df && cl.N == 0 {
						deadEmpties++
					}
				}
			}
		}
		if seen["empty"] < empties || seen["empty"] > empties+deadEmpties {
			res.Violate("C19.exactly-once", "%d empty update lists were sent, the callback saw %d", empties, seen["empty"])
		}
		// mutual exclusion
		entries := h.entriesCopy()
		inf := 1 << 60
		exit := func(x int) int {
			if x < 0 {
				return inf
			}
			return x
		}
		firstEntry := map[string]int{}
		for _, en := range entries {
			if en.RPC == "Synchronize" {
				continue
			}
			if _, ok := firstEntry[en.Token]; !ok {
				firstEntry[en.Token] = en.Step
			}
		}
		retOf := map[string]int{}
		for _, rq := range reqs {
			retOf[rq.ID] = rq.Ret
		}
		// a handler counts as running until it returns - or until its request has returned to the
		// runtime's caller (a handler of a plugin whose connection died is an orphan from then on)
		hexit := func(en *Entry) int {
			x := exit(en.Exit)
			if r, ok := retOf[en.Token]; ok && r >= 0 && r < x {
				x = r
			}
			return x
		}
		overl := 0
		for i, u := range h.UpdLog {
			for _, en := range entries {
				if en.RPC == "Synchronize" {
					continue
				}
				if en.Step > u.Enter && en.Step < exit(u.Exit) && en.Step < hexit(en) {
					res.Violate("C19.mutual-exclusion", "handler %s/%s of request %s entered at step %d while the runtime's update callback #%d was running (steps %d..%d)", en.Plugin, en.RPC, en.Token, en.Step, u.N, u.Enter, u.Exit)
				}
				if u.Enter > en.Step && u.Enter < hexit(en) {
					res.Violate("C19.mutual-exclusion", "update callback #%d entered at step %d while handler %s/%s of request %s was running (steps %d..%d)", u.N, u.Enter, en.Plugin, en.RPC, en.Token, en.Step, en.Exit)
				}
			}
			for _, rq := range reqs {
				fe, ok := firstEntry[rq.ID]
				if ok && u.Enter > fe && u.Enter < exit(rq.Ret) {
					res.Violate("C19.mutual-exclusion", "update callback #%d entered at step %d while request %s was being processed (first handler at %d, returned at %d)", u.N, u.Enter, rq.ID, fe, rq.Ret)
				}
				if rq.Inv < u.Exit && rq.Ret > u.Enter {
					overl++
				}
			}
			for j, v := range h.UpdLog {
				if i != j && v.Enter > u.Enter && v.Enter < exit(u.Exit) {
					res.Violate("C19.mutual-exclusion", "update callback #%d entered at step %d while callback #%d was running (steps %d..%d)", v.N, v.Enter, u.N, u.Enter, u.Exit)
				}
			}
		}
		for _, rq := range reqs {
			if rq.Err != nil {
				res.Violate("C19.request", "request %s failed: %v", rq.ID, rq.Err)
			}
		}
		if overl > 0 {
			res.Probe("C19.update-overlaps-request-lifetime")
		}
		if len(h.UpdLog) >= 2 {
			res.Probe("C19.two-or-more-updates")
		}
		res.Nontrivial = len(h.UpdLog) > 0 && (len(reqs) > 0 || len(h.UpdLog) >= 2)
		res.Summary = map[string]any{"callback_invocations": len(h.UpdLog), "requests": len(reqs), "request_lifetimes_overlapping_a_callback": overl}
	})
}

func c19Shrink(wl any) []any {
	w := wl.(*C19W)
	var out []any
	for i := range w.Callers {
		c := jsonClone(w)
		c.Callers = append(c.Callers[:i], c.Callers[i+1:]...)
		out = append(out, c)
	}
	for k := range w.Calls {
		for c := range w.Calls[k] {
			cc := jsonClone(w)
			cc.Calls[k] = append(cc.Calls[k][:c], cc.Calls[k][c+1:]...)
			out = append(out, cc)
		}
	}
	if len(w.Plugins) > 1 {
		for k := range w.Plugins {
			c := jsonClone(w)
			c.Plugins = append(c.Plugins[:k], c.Plugins[k+1:]...)
			c.Calls = append(c.Calls[:k], c.Calls[k+1:]...)
			out = append(out, c)
		}
	}
	if w.Unstarted {
		c := jsonClone(w)
		c.Unstarted = false
		out = append(out, c)
	}
	if len(w.Kills) > 0 {
		c := jsonClone(w)
		c.Kills = nil
		out = append(out, c)
	}
	for i := range w.Callers {
		for k := range w.Callers[i] {
			if len(w.Callers[i]) > 1 {
				c := jsonClone(w)
				c.Callers[i] = append(c.Callers[i][:k], c.Callers[i][k+1:]...)
				out = append(out, c)
			}
		}
	}
	return out
}

func init() {
	register(&Property{
		ID:         "C19",
		Gen:        c19Gen,
		New:        func() any { return &C19W{} },
		Run:        c19Run,
		Shrink:     c19Shrink,
		Confs:      func(tier string) []Conf { return []Conf{{Name: "random", Weight: 1}} },
		Components: h1Components,
		Rule: "1-4 started stubs each issuing 0-3 unsolicited UpdateContainers calls (0-3 updates, scripted failed subset or callback error) concurrently with 0-3 runtime callers issuing 1-4 lifecycle calls each; the runtime callback parks at a scheduler gate so overlap has a chance; " +
			"non-trivial = the callback ran and there was a request or a second callback to overlap with; distinct = distinct event-log hash",
	})
}
