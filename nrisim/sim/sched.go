// Package sim is the seeded scheduler of the deterministic simulator. It runs on the
// root goroutine of a testing/synctest bubble. All other goroutines of a run (real NRI
// code, real ttRPC, harness tasks) only ever block durably: on bubble channels, on
// simsync locks (which park here), on simnet reads, or on gates. Whenever every
// goroutine is blocked (synctest.Wait), the scheduler computes the set of enabled
// events in a canonical order and fires exactly one, chosen by the run's strategy
// from the run's PRNG - or from a recorded list of keys when replaying.
package sim

import (
	"fmt"
	"hash/fnv"
	"math/rand"
	"runtime"
	"sort"
	"strconv"
	"strings"
	stdsync "sync"
	"testing/synctest"
	"time"
)

// Item is one pending event. Key is stable across runs (never contains addresses,
// goroutine ids or wall-clock values).
type Item struct {
	Key   string
	Owner string // scheduling owner (task / connection direction / goroutine name)
	Ready func() bool
	Fire  func(arg int)
	// ArgMax > 0: the event takes an integer argument in [0, ArgMax) decided by the
	// chooser and recorded in the log as "key#arg" (e.g. the chunk size of a delivery).
	ArgMax func() int
	// Last: considered only when no other event is enabled ("settle" points of harness tasks).
	Last bool
	seq  int
	gid  string
}

// Sched is one run's scheduler.
type Sched struct {
	mu    stdsync.Mutex
	rng   *rand.Rand
	items []*Item
	seq   int
	gid   string

	Seed      uint64
	Strategy  string // uniform | pct | starve | drain
	Replay    []string
	replayPos int
	Diverged  int // step at which replay first diverged (-1 = not)

	Log        []string // chosen keys, one per step
	Steps      int
	Trace      bool
	TraceLines []string

	// Quantum is the amount of simulated time the clock advances when nothing is enabled.
	Quantum time.Duration
	// IdleLimit is the number of consecutive idle quanta after which Run gives up.
	IdleLimit int
	// Done, if set, ends Run when it returns true (checked at quiescent points).
	Done func() bool
	// AtQuiescence hooks are called at every quiescent point before choosing (invariants).
	AtQuiescence []func()

	prio        map[string]int
	victim      string
	starveTo    int
	gnames      map[string]string
	gbase       map[string]int // goroutines named after each first-park site so far
	Stats       Stats
	OrderSeed   uint64
	lockTriples map[string]struct{}
	// NoChunk disables random splitting of delivered segments.
	NoChunk bool
	Net     NetStats
}

// Stats are per-run counters (reach measurement).
type Stats struct {
	Kinds   map[string]int // fired events by kind (prefix of key before ':')
	IdleQ   int            // idle quanta
	MaxEn   int            // max enabled set size
	SimTime time.Duration
	Probes  map[string]int
}

// Cur is the scheduler of the run in progress (nil outside runs). One run at a time per
// process.
var Cur *Sched

func goid() string {
	var b [64]byte
	n := runtime.Stack(b[:], false)
	return strings.Fields(string(b[:n]))[1]
}

// SplitMix derives independent 64-bit values from a seed.
func SplitMix(x uint64) uint64 {
	x += 0x9e3779b97f4a7c15
	z := x
	z = (z ^ (z >> 30)) * 0xbf58476d1ce4e5b9
	z = (z ^ (z >> 27)) * 0x94d049bb133111eb
	return z ^ (z >> 31)
}

// New creates a scheduler owned by the calling goroutine (the bubble root).
func New(seed uint64, strategy string) *Sched {
	s := &Sched{
		rng:         rand.New(rand.NewSource(int64(SplitMix(seed ^ 0x5ced)))),
		gid:         goid(),
		Seed:        seed,
		Strategy:    strategy,
		Diverged:    -1,
		prio:        map[string]int{},
		gnames:      map[string]string{},
		gbase:       map[string]int{},
		Quantum:     10 * time.Millisecond,
		IdleLimit:   400,
		OrderSeed:   SplitMix(seed ^ 0x0bde),
		lockTriples: map[string]struct{}{},
	}
	s.Stats.Kinds = map[string]int{}
	s.Stats.Probes = map[string]int{}
	return s
}

// Rng is the run's PRNG; only the scheduler goroutine may draw from it.
func (s *Sched) Rng() *rand.Rand { return s.rng }

func (s *Sched) IsSchedGoroutine() bool { return s.gid == goid() }

// Probe counts a "this rare condition was reached" event.
func (s *Sched) Probe(name string) {
	s.mu.Lock()
	s.Stats.Probes[name]++
	s.mu.Unlock()
}

// LockTriple records a (site, holder-site) pair seen contended.
func (s *Sched) LockTriple(k string) {
	s.mu.Lock()
	s.lockTriples[k] = struct{}{}
	s.mu.Unlock()
}

func (s *Sched) LockTriples() int { s.mu.Lock(); defer s.mu.Unlock(); return len(s.lockTriples) }

// SetGName names the calling goroutine (harness tasks).
func (s *Sched) SetGName(n string) {
	g := goid()
	s.mu.Lock()
	s.gnames[g] = n
	s.mu.Unlock()
}

// Add registers a pending event.
func (s *Sched) Add(it *Item) {
	if it.Owner == "" {
		it.gid = goid()
	}
	s.mu.Lock()
	s.seq++
	it.seq = s.seq
	s.items = append(s.items, it)
	s.mu.Unlock()
}

// Park blocks the calling goroutine until the scheduler fires an event with this key.
func (s *Sched) Park(key string, ready func() bool) {
	ch := make(chan struct{})
	s.Add(&Item{Key: key, Ready: ready, Fire: func(int) { close(ch) }})
	<-ch
}

// Settle blocks the calling task until nothing else in the system is enabled.
func (s *Sched) Settle(name string) {
	ch := make(chan struct{})
	s.Add(&Item{Key: "settle:" + name, Owner: name, Last: true, Fire: func(int) { close(ch) }})
	<-ch
}

// ParkOwned is Park with an explicit scheduling owner.
func (s *Sched) ParkOwned(key, owner string, ready func() bool) {
	ch := make(chan struct{})
	s.Add(&Item{Key: key, Owner: owner, Ready: ready, Fire: func(int) { close(ch) }})
	<-ch
}

// Now returns simulated time since the start of the bubble (for logs only).
func (s *Sched) tracef(f string, a ...any) {
	if s.Trace {
		s.TraceLines = append(s.TraceLines, fmt.Sprintf(f, a...))
	}
}

// Pending returns the keys of all pending items (diagnostics for stuck runs).
func (s *Sched) Pending() []string {
	s.mu.Lock()
	defer s.mu.Unlock()
	var r []string
	for _, it := range s.items {
		st := "blocked"
		if it.Ready == nil || it.Ready() {
			st = "ready"
		}
		r = append(r, it.Key+" ["+it.Owner+"] "+st)
	}
	sort.Strings(r)
	return r
}

func kindOf(key string) string {
	if i := strings.IndexByte(key, ':'); i > 0 {
		return key[:i]
	}
	return key
}

func (s *Sched) choose(en []*Item) *Item {
	n := len(en)
	switch s.Strategy {
	case "drain":
		return en[0]
	case "pct":
		best := -1
		for i, it := range en {
			if _, ok := s.prio[it.Owner]; !ok {
				s.prio[it.Owner] = s.rng.Intn(1 << 20)
			}
			if best < 0 || s.prio[it.Owner] > s.prio[en[best].Owner] {
				best = i
			}
		}
		if s.rng.Intn(60) == 0 {
			s.prio[en[best].Owner] = -s.Steps
		}
		return en[best]
	case "lag":
		// goroutines that were just woken by a channel receive (they sit at a "yield:" point, see
		// simgen/selects.go) are held back as long as anything else can run - a goroutine preempted
		// right after it got its answer; which yield sites lag (a quarter of them) is a function of the run's seed
		var rest []*Item
		for _, it := range en {
			if strings.HasPrefix(it.Key, "yield:") && lagSite(it.Key, s.OrderSeed) {
				continue
			}
			rest = append(rest, it)
		}
		if len(rest) > 0 {
			return rest[s.rng.Intn(len(rest))]
		}
	case "starve":
		if s.victim == "" && s.rng.Intn(15) == 0 {
			s.victim = en[s.rng.Intn(n)].Owner
			s.starveTo = s.Steps + 10 + s.rng.Intn(300)
		}
		if s.victim != "" && s.Steps < s.starveTo {
			var rest []*Item
			for _, it := range en {
				if it.Owner != s.victim {
					rest = append(rest, it)
				}
			}
			if len(rest) > 0 {
				return rest[s.rng.Intn(len(rest))]
			}
		}
		if s.Steps >= s.starveTo {
			s.victim = ""
		}
	}
	return en[s.rng.Intn(n)]
}

func lagSite(key string, seed uint64) bool {
	// only the receives of the NRI stub and adaptation lag; the receive loops of the mux and of ttRPC
	// sit under every message and lagging them merely slows everything down evenly
	if !strings.HasPrefix(key, "yield:pkg/stub/") && !strings.HasPrefix(key, "yield:pkg/adaptation/") {
		return false
	}
	h := fnv.New64a()
	h.Write([]byte(key))
	return (h.Sum64()^seed)%3 == 0 // a third of those sites per run
}

// ErrStuck is returned by Run when nothing was enabled for IdleLimit quanta.
var ErrStuck = fmt.Errorf("no enabled event for the idle limit")

// ErrSteps is returned when the step budget is exhausted.
var ErrSteps = fmt.Errorf("step budget exhausted")

// Run drives the system until Done() or the step budget or the idle limit.
func (s *Sched) Run(maxSteps int) error {
	idle := 0
	end := s.Steps + maxSteps
	for s.Steps < end {
		synctest.Wait()
		for _, f := range s.AtQuiescence {
			f()
		}
		if s.Done != nil && s.Done() {
			return nil
		}
		s.mu.Lock()
		// name owners of fresh items in canonical order
		var fresh []*Item
		for _, it := range s.items {
			if it.Owner == "" {
				fresh = append(fresh, it)
			}
		}
		// (goroutines that first park at the same site in the same step - the demultiplexers of two muxes
		// created back to back - are told apart by their creation order, i.e. their goroutine ids)
		sort.SliceStable(fresh, func(i, j int) bool {
			if fresh[i].Key != fresh[j].Key {
				return fresh[i].Key < fresh[j].Key
			}
			a, _ := strconv.Atoi(fresh[i].gid)
			b, _ := strconv.Atoi(fresh[j].gid)
			return a < b
		})
		for _, it := range fresh {
			n, ok := s.gnames[it.gid]
			if !ok {
				// an unnamed goroutine is named after the place where it first parked (not by a global
				// counter: a counter would let one flipped arrival order rename every later goroutine);
				// a second goroutine first parking at the same place gets "~2", and so on
				n = "g@" + it.Key
				s.gbase[n]++
				if c := s.gbase[n]; c > 1 {
					n = fmt.Sprintf("%s~%d", n, c) // ('#' separates an event's argument in recorded keys)
				}
				s.gnames[it.gid] = n
			}
			it.Owner = n
		}
		items := append([]*Item(nil), s.items...)
		s.mu.Unlock()
		var en []*Item
		for _, it := range items {
			if it.Ready == nil || it.Ready() {
				en = append(en, it)
			}
		}
		sort.SliceStable(en, func(i, j int) bool {
			if en[i].Key != en[j].Key {
				return en[i].Key < en[j].Key
			}
			// two goroutines woken at the same simulated instant (equal timers) reach the same park site
			// in an order the Go runtime decides: order them by owner, arrival order only as a last resort
			if en[i].Owner != en[j].Owner {
				return en[i].Owner < en[j].Owner
			}
			return en[i].seq < en[j].seq
		})
		hasFirst := false
		for _, it := range en {
			if !it.Last {
				hasFirst = true
				break
			}
		}
		if hasFirst {
			k := 0
			for _, it := range en {
				if !it.Last {
					en[k] = it
					k++
				}
			}
			en = en[:k]
		}
		if len(en) > s.Stats.MaxEn {
			s.Stats.MaxEn = len(en)
		}
		if len(en) == 0 {
			idle++
			s.Stats.IdleQ++
			if idle > s.IdleLimit {
				return ErrStuck
			}
			time.Sleep(s.Quantum)
			s.Stats.SimTime += s.Quantum
			continue
		}
		idle = 0
		var pick *Item
		arg := -1
		if s.replayPos < len(s.Replay) {
			want := s.Replay[s.replayPos]
			s.replayPos++
			wkey, warg := want, -1
			if i := strings.LastIndexByte(want, '#'); i >= 0 {
				wkey = want[:i]
				warg, _ = strconv.Atoi(want[i+1:])
			}
			// a recorded entry is "key|owner|n": the n-th enabled item with that key and owner
			wowner, wn := "", 0
			if parts := strings.Split(wkey, "|"); len(parts) == 3 {
				wkey, wowner = parts[0], parts[1]
				wn, _ = strconv.Atoi(parts[2])
			}
			n := 0
			for _, it := range en {
				if it.Key == wkey && (wowner == "" || it.Owner == wowner) {
					if n == wn {
						pick, arg = it, warg
						break
					}
					n++
				}
			}
			if pick == nil && s.Diverged < 0 {
				s.Diverged = s.Steps
			}
		}
		if pick == nil {
			pick = s.choose(en)
		}
		if pick.ArgMax != nil {
			if m := pick.ArgMax(); m > 0 {
				if arg < 0 || arg >= m {
					arg = s.rng.Intn(m)
				}
			} else {
				arg = 0
			}
		} else {
			arg = 0
		}
		s.mu.Lock()
		for i, it := range s.items {
			if it == pick {
				s.items = append(s.items[:i], s.items[i+1:]...)
				break
			}
		}
		s.mu.Unlock()
		// identify the chosen item among the enabled ones: key, owner and rank among equals
		rank := 0
		for _, it := range en {
			if it == pick {
				break
			}
			if it.Key == pick.Key && it.Owner == pick.Owner {
				rank++
			}
		}
		k := pick.Key + "|" + pick.Owner + "|" + strconv.Itoa(rank)
		if pick.ArgMax != nil {
			k += "#" + strconv.Itoa(arg)
		}
		s.Log = append(s.Log, k)
		s.Stats.Kinds[kindOf(pick.Key)]++
		s.tracef("%d %s [%s] (of %d)", s.Steps, k, pick.Owner, len(en))
		s.Steps++
		pick.Fire(arg)
	}
	return ErrSteps
}

// Sleep advances simulated time by d (only from the scheduler goroutine, e.g. in the Fire
// function of a "time" item).
func (s *Sched) Sleep(d time.Duration) {
	time.Sleep(d)
	s.Stats.SimTime += d
}

// LogHash is a digest of the sequence of chosen events (one interleaving = one hash).
func (s *Sched) LogHash() uint64 {
	h := fnv.New64a()
	for _, k := range s.Log {
		h.Write([]byte(k))
		h.Write([]byte{0})
	}
	return h.Sum64()
}
