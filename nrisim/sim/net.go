package sim

import (
	"io"
	"net"
	"os"
	stdsync "sync"
	"syscall"
	"time"
)

// half is one direction of a simulated unix stream connection.
//
// Bytes written are queued as segments (write boundaries preserved, never coalesced);
// a "deliver" event moves one segment - or a PRNG-chosen prefix of it - into the
// reader's buffer. End-of-stream (orderly close, cut, reset) is a separate event.
type half struct {
	name       string
	inflight   []byte
	segs       []int
	rbuf       []byte
	eofSent    bool // writer closed (or cut reached): EOF will follow the queued data
	eof        bool // reader has been told
	reset      bool // deliver ECONNRESET instead of EOF
	wake       chan struct{}
	pending    bool
	cutAt      int // >= 0: deliver at most cutAt bytes, then end of stream
	delivered  int
	written    int
	dead       bool // writes in this direction fail (peer gone)
	stalled    bool // the peer does not drain its socket and the buffer is full: writes block
	freezeAt   int  // >= 0: nothing beyond this many bytes is ever delivered, and no end of stream either (silent peer / partition)
	failAt     int  // >= 0: the write that crosses this many bytes written is partial and fails (peer died mid-write)
	failOnce   bool // with failAt: the failure is transient (a write deadline): at least one byte and not all are written, the direction stays usable
	readerGone bool // the reading end was closed locally
}

// Conn is one end of a simulated connection.
type Conn struct {
	s      *Sched
	mu     *stdsync.Mutex
	rd, wr *half
	closed bool
	// WPark makes every Write a scheduling point (used by the mux harness, where no
	// ttRPC lock is held across a write).
	WPark bool
	// NoChunk disables random splitting of segments on this connection's write direction.
	peer *Conn
	name string
	end  string
}

// NetStats counts fired network events of a run.
type NetStats struct {
	Delivered, Chunked, EOFs, Resets, Cuts, Kills, BytesDelivered, Stalls, PartialWrites, Freezes int
}

// Pipe creates a connected pair. a writes "name:a>b".
func (s *Sched) Pipe(name string) (*Conn, *Conn) {
	mu := &stdsync.Mutex{}
	ab := &half{name: name + ":a>b", wake: make(chan struct{}, 1), cutAt: -1, failAt: -1, freezeAt: -1}
	ba := &half{name: name + ":b>a", wake: make(chan struct{}, 1), cutAt: -1, failAt: -1, freezeAt: -1}
	a := &Conn{s: s, mu: mu, rd: ba, wr: ab, name: name, end: "a"}
	b := &Conn{s: s, mu: mu, rd: ab, wr: ba, name: name, end: "b"}
	a.peer, b.peer = b, a
	return a, b
}

func (c *Conn) Name() string { return c.name + ":" + c.end }

// Peer returns the other end.
func (c *Conn) Peer() *Conn { return c.peer }

// must be called with c.mu held
func (c *Conn) schedule(h *half) {
	if h.pending {
		return
	}
	if len(h.segs) == 0 && !(h.eofSent && !h.eof) {
		return
	}
	if h.freezeAt >= 0 && h.delivered >= h.freezeAt {
		return // frozen: the rest stays in flight for ever
	}
	h.pending = true
	s := c.s
	s.Add(&Item{Key: "deliver:" + h.name, Owner: "net:" + h.name,
		ArgMax: func() int {
			c.mu.Lock()
			defer c.mu.Unlock()
			if len(h.segs) == 0 || s.NoChunk {
				return 0
			}
			n := h.segs[0]
			if h.cutAt >= 0 && h.delivered+n > h.cutAt {
				n = h.cutAt - h.delivered
			}
			if n <= 1 {
				return 0
			}
			// arg 0..3n-1: values >= n mean "whole segment" (2/3 of the time), else a prefix of arg+1 bytes... arg in [0,n-1) => prefix
			return 3 * n
		},
		Fire: func(arg int) {
			c.mu.Lock()
			h.pending = false
			if h.cutAt >= 0 && h.delivered >= h.cutAt {
				// the cut is reached: everything else is lost, end of stream
				h.segs, h.inflight = nil, nil
				h.eofSent, h.eof, h.dead = true, true, true
				s.Net.Cuts++
			} else if len(h.segs) > 0 {
				n := h.segs[0]
				k := n
				if h.cutAt >= 0 && h.delivered+k > h.cutAt {
					k = h.cutAt - h.delivered
				}
				if arg > 0 && arg < k {
					k = arg
					s.Net.Chunked++
				}
				if h.freezeAt >= 0 && h.delivered+k > h.freezeAt {
					k = h.freezeAt - h.delivered
					s.Net.Freezes++
				}
				h.delivered += k
				s.Net.Delivered++
				s.Net.BytesDelivered += k
				h.rbuf = append(h.rbuf, h.inflight[:k]...)
				h.inflight = h.inflight[k:]
				if k == n {
					h.segs = h.segs[1:]
				} else {
					h.segs[0] -= k
				}
				if h.cutAt >= 0 && h.delivered >= h.cutAt {
					h.eofSent = true
				}
			} else if h.eofSent {
				h.eof = true
				h.dead = true
				if h.reset {
					s.Net.Resets++
				} else {
					s.Net.EOFs++
				}
			}
			c.schedule(h)
			c.mu.Unlock()
			select {
			case h.wake <- struct{}{}:
			default:
			}
		}})
}

func epipe() error {
	return &net.OpError{Op: "write", Net: "unix", Err: os.NewSyscallError("write", syscall.EPIPE)}
}

// Write queues p as one segment; it never blocks (unbounded socket buffer) unless WPark.
func (c *Conn) Write(p []byte) (int, error) {
	if c.WPark && Cur != nil && !Cur.IsSchedGoroutine() {
		Cur.ParkOwned("write:"+c.wr.name, "", nil)
	}
	c.mu.Lock()
	if c.wr.stalled && !c.closed && Cur != nil && !Cur.IsSchedGoroutine() {
		// a full socket buffer: the write blocks until the peer drains or this end is closed
		c.mu.Unlock()
		c.s.Net.Stalls++
		Cur.ParkOwned("stalled-write:"+c.wr.name, "", func() bool {
			c.mu.Lock()
			defer c.mu.Unlock()
			return !c.wr.stalled || c.closed
		})
		c.mu.Lock()
	}
	defer c.mu.Unlock()
	if c.closed {
		return 0, &net.OpError{Op: "write", Net: "unix", Err: net.ErrClosed}
	}
	if c.wr.dead || c.wr.readerGone {
		return 0, epipe()
	}
	if c.wr.failAt >= 0 && c.wr.failOnce && c.wr.written+len(p) > c.wr.failAt && len(p) >= 2 {
		// a transient failure in the middle of this write (a timeout): some bytes are out, the rest is
		// not, and the connection itself stays up
		k := c.wr.failAt - c.wr.written
		if k < 1 {
			k = 1
		}
		if k > len(p)-1 {
			k = len(p) - 1
		}
		c.wr.inflight = append(c.wr.inflight, p[:k]...)
		c.wr.segs = append(c.wr.segs, k)
		c.wr.written += k
		c.wr.failAt = -1
		c.s.Net.PartialWrites++
		c.schedule(c.wr)
		return k, &net.OpError{Op: "write", Net: "unix", Err: os.ErrDeadlineExceeded}
	}
	if c.wr.failAt >= 0 && !c.wr.failOnce && c.wr.written+len(p) > c.wr.failAt {
		// the peer dies while this write is in progress: a partial write and an error
		k := c.wr.failAt - c.wr.written
		if k < 0 {
			k = 0
		}
		if k > 0 {
			c.wr.inflight = append(c.wr.inflight, p[:k]...)
			c.wr.segs = append(c.wr.segs, k)
			c.wr.written += k
		}
		c.wr.dead = true
		c.wr.eofSent = true
		if k > 0 {
			c.s.Net.PartialWrites++
		}
		c.schedule(c.wr)
		return k, epipe()
	}
	if len(p) > 0 {
		c.wr.inflight = append(c.wr.inflight, p...)
		c.wr.segs = append(c.wr.segs, len(p))
		c.wr.written += len(p)
		c.schedule(c.wr)
	}
	return len(p), nil
}

func (c *Conn) Read(p []byte) (int, error) {
	for {
		c.mu.Lock()
		if c.closed {
			c.mu.Unlock()
			return 0, &net.OpError{Op: "read", Net: "unix", Err: net.ErrClosed}
		}
		if len(c.rd.rbuf) > 0 {
			n := copy(p, c.rd.rbuf)
			c.rd.rbuf = c.rd.rbuf[n:]
			c.mu.Unlock()
			return n, nil
		}
		if c.rd.eof {
			reset := c.rd.reset
			c.mu.Unlock()
			if reset {
				return 0, &net.OpError{Op: "read", Net: "unix", Err: os.NewSyscallError("read", syscall.ECONNRESET)}
			}
			return 0, io.EOF
		}
		c.mu.Unlock()
		<-c.rd.wake
	}
}

// Close is an orderly local close: the peer reads EOF after the data already written;
// the peer's later writes fail with EPIPE once it has seen the EOF... as on a real
// socket, immediately after this end is gone.
func (c *Conn) Close() error {
	c.mu.Lock()
	if c.closed {
		c.mu.Unlock()
		return nil
	}
	c.closed = true
	c.wr.eofSent = true
	c.rd.readerGone = true
	c.schedule(c.wr)
	c.mu.Unlock()
	select {
	case c.rd.wake <- struct{}{}:
	default:
	}
	return nil
}

// CutWrite plans a cut of the direction written by this end: the peer receives at
// most n bytes in total, then end of stream (EOF, or ECONNRESET if reset); bytes beyond
// n are lost and later writes in this direction fail with EPIPE.
func (c *Conn) CutWrite(n int, reset bool) {
	c.mu.Lock()
	c.wr.cutAt = n
	c.wr.reset = reset
	if c.wr.delivered >= n {
		c.wr.eofSent = true
		c.schedule(c.wr)
	}
	c.mu.Unlock()
}

// StallWrites makes writes by this end block (peer not draining, buffer full) until
// released or until this end is closed.
func (c *Conn) StallWrites(on bool) { c.mu.Lock(); c.wr.stalled = on; c.mu.Unlock() }

// FailWriteAt plans a partial, failing write: the write by this end that crosses n bytes
// written in total writes only up to n and returns EPIPE; the direction is dead afterwards.
func (c *Conn) FailWriteAt(n int) { c.mu.Lock(); c.wr.failAt = n; c.mu.Unlock() }

// FailWriteOnceAt makes the write that crosses n written bytes fail half-way with a timeout error while
// the connection stays usable.
func (c *Conn) FailWriteOnceAt(n int) {
	c.mu.Lock()
	c.wr.failAt, c.wr.failOnce = n, true
	c.mu.Unlock()
}

// FreezeWrite makes the direction written by this end go silent after n delivered bytes: nothing
// more arrives, not even an end of stream (a partition, or a peer that stopped mid-frame).
func (c *Conn) FreezeWrite(n int) { c.mu.Lock(); c.wr.freezeAt = n; c.mu.Unlock() }

// Kill is peer death as seen by this end's peer... it closes both directions at once
// from "outside": undelivered bytes in both directions are dropped, both ends read
// end of stream (reset = ECONNRESET on the surviving side) and fail writes.
func (c *Conn) Kill(reset bool) {
	c.mu.Lock()
	for _, h := range []*half{c.rd, c.wr} {
		h.segs, h.inflight = nil, nil
		h.eofSent = true
		h.reset = reset
		h.dead = true
	}
	c.schedule(c.rd)
	c.schedule(c.wr)
	c.s.Net.Kills++
	c.mu.Unlock()
}

// WrittenBytes / DeliveredBytes of the direction written by this end.
func (c *Conn) WrittenBytes() int   { c.mu.Lock(); defer c.mu.Unlock(); return c.wr.written }
func (c *Conn) DeliveredBytes() int { c.mu.Lock(); defer c.mu.Unlock(); return c.wr.delivered }

// Faulted reports whether the direction written by this end has been cut/killed/closed.
func (c *Conn) Faulted() bool { c.mu.Lock(); defer c.mu.Unlock(); return c.wr.eofSent || c.wr.dead }

type addr string

func (a addr) Network() string { return "sim" }
func (a addr) String() string  { return string(a) }

func (c *Conn) LocalAddr() net.Addr              { return addr(c.wr.name) }
func (c *Conn) RemoteAddr() net.Addr             { return addr(c.rd.name) }
func (c *Conn) SetDeadline(time.Time) error      { return nil }
func (c *Conn) SetReadDeadline(time.Time) error  { return nil }
func (c *Conn) SetWriteDeadline(time.Time) error { return nil }

// Listener is a simulated net.Listener; Dial hands it one end of a fresh Pipe.
type Listener struct {
	c       chan net.Conn
	closed  chan struct{}
	once    stdsync.Once
	s       *Sched
	mu      stdsync.Mutex
	Accepts []int // scheduler step at which each Accept call was entered
}

func (s *Sched) Listen() *Listener {
	return &Listener{c: make(chan net.Conn, 64), closed: make(chan struct{}), s: s}
}

func (l *Listener) Accept() (net.Conn, error) {
	l.mu.Lock()
	l.Accepts = append(l.Accepts, l.s.Steps)
	l.mu.Unlock()
	select {
	case c := <-l.c:
		return c, nil
	case <-l.closed:
		return nil, &net.OpError{Op: "accept", Net: "unix", Err: net.ErrClosed}
	}
}

// AcceptCount returns the number of Accept calls entered so far.
func (l *Listener) AcceptCount() int { l.mu.Lock(); defer l.mu.Unlock(); return len(l.Accepts) }

// AcceptStep returns the step at which the i-th (0-based) Accept call was entered, or -1.
func (l *Listener) AcceptStep(i int) int {
	l.mu.Lock()
	defer l.mu.Unlock()
	if i < len(l.Accepts) {
		return l.Accepts[i]
	}
	return -1
}

func (l *Listener) Close() error   { l.once.Do(func() { close(l.closed) }); return nil }
func (l *Listener) Addr() net.Addr { return addr("sim-listener") }

// Dial returns the plugin-side end (b) of a new connection whose runtime-side end (a) is
// queued for Accept.
func (l *Listener) Dial(name string) *Conn {
	a, b := l.s.Pipe(name)
	l.c <- a
	return b
}
