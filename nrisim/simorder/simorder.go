// Package simorder owns map iteration order in the simulated copies of NRI: every
// `range m` over a map is rewritten by simgen to `range simorder.Seq2(site, m)`.
// The keys are snapshotted, sorted canonically and permuted by a function of
// (run order-seed, site, set of keys) - so one seed is one order, the order varies
// between seeds, and nothing depends on Go's randomised map iteration. Presence is
// re-checked before each yield, which preserves Go's delete-during-range semantics.
package simorder

import (
	"cmp"
	"fmt"
	"hash/fnv"
	"iter"
	"math/rand"
	"reflect"
	"sort"
	stdsync "sync"
	"sync/atomic"
)

var (
	mu    stdsync.Mutex
	seed  uint64
	fixed func(site string, n int) []int // explicit permutation source (C13 enumeration)
	// Visits counts ranges over maps with >= 2 keys, per site (reach measurement).
	visits = map[string]int{}
)

// SetSeed selects the permutation family for the current run.
func SetSeed(s uint64) { mu.Lock(); seed = s; fixed = nil; mu.Unlock() }

// SetFixed installs an explicit permutation source: for a map with n keys at the given
// site it returns a permutation of 0..n-1 applied to the canonically sorted keys (nil =
// canonical order).
func SetFixed(f func(site string, n int) []int) { mu.Lock(); fixed = f; mu.Unlock() }

// Visits returns and resets the per-site counters.
func Visits() map[string]int {
	mu.Lock()
	defer mu.Unlock()
	v := visits
	visits = map[string]int{}
	return v
}

func less[K comparable](a, b K) bool {
	switch x := any(a).(type) {
	case string:
		return x < any(b).(string)
	case int:
		return x < any(b).(int)
	case int32:
		return x < any(b).(int32)
	case int64:
		return x < any(b).(int64)
	case uint32:
		return x < any(b).(uint32)
	case uint64:
		return x < any(b).(uint64)
	}
	va, vb := reflect.ValueOf(a), reflect.ValueOf(b)
	switch va.Kind() {
	case reflect.String:
		return va.String() < vb.String()
	case reflect.Int, reflect.Int8, reflect.Int16, reflect.Int32, reflect.Int64:
		return va.Int() < vb.Int()
	case reflect.Uint, reflect.Uint8, reflect.Uint16, reflect.Uint32, reflect.Uint64, reflect.Uintptr:
		return va.Uint() < vb.Uint()
	}
	return cmp.Less(fmt.Sprint(a), fmt.Sprint(b))
}

// Seq2 iterates m in the run's order for this site.
func Seq2[M ~map[K]V, K comparable, V any](site string, m M) iter.Seq2[K, V] {
	return func(yield func(K, V) bool) {
		keys := make([]K, 0, len(m))
		for k := range m {
			keys = append(keys, k)
		}
		sort.Slice(keys, func(i, j int) bool { return less(keys[i], keys[j]) })
		if len(keys) > 1 {
			mu.Lock()
			visits[site]++
			f, sd := fixed, seed
			mu.Unlock()
			var perm []int
			if f != nil {
				perm = f(site, len(keys))
			} else {
				h := fnv.New64a()
				h.Write([]byte(site))
				for _, k := range keys {
					fmt.Fprint(h, k)
					h.Write([]byte{0})
				}
				perm = rand.New(rand.NewSource(int64(sd ^ h.Sum64()))).Perm(len(keys))
			}
			if perm != nil {
				nk := make([]K, len(keys))
				for i, p := range perm {
					nk[i] = keys[p]
				}
				keys = nk
			}
		}
		for _, k := range keys {
			v, ok := m[k]
			if !ok {
				continue
			}
			if !yield(k, v) {
				return
			}
		}
	}
}

// SelectPerm is the order in which the ready cases of the select statement at site are
// tried (see simgen/selects.go): a function of the run's seed and the site.
func SelectPerm(site string, n int) []int {
	mu.Lock()
	sd := seed
	visits["select:"+site]++
	mu.Unlock()
	h := fnv.New64a()
	h.Write([]byte(site))
	return rand.New(rand.NewSource(int64(sd ^ h.Sum64() ^ 0x5e1ec7))).Perm(n)
}

// ---- reach probes: simgen puts Hit(i) at the entry of function i of the simulated packages

var hits [4096]uint32

// Hit counts an entry of function i.
func Hit(i int) {
	if i < len(hits) {
		atomic.AddUint32(&hits[i], 1)
	}
}

// HitSet returns the indices of the functions entered so far (since process start).
func HitSet() []int {
	var out []int
	for i := range hits {
		if atomic.LoadUint32(&hits[i]) > 0 {
			out = append(out, i)
		}
	}
	return out
}

// ---- yields: simgen puts Yield(site) right after every channel receive of the simulated packages

// YieldFn is installed by the harness for the duration of a run; nil outside.
var YieldFn func(site string)

// Yield hands control to the scheduler (a scheduling point that is always enabled).
func Yield(site string) {
	if f := YieldFn; f != nil {
		f(site)
	}
}
