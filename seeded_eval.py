#!/usr/bin/env python3
"""Confirms a seeded breaking change produced by a sub-agent and runs the corresponding check on it.

usage: seeded_eval.py <PROPERTY> <worktree> <outdir> [--budget N] [--keep-as NAME]

Steps (all in the agent's scratch worktree, never in /repo):
  1. the source change alone: go build ./... and the existing suite (demo moved aside) must pass
  2. the demo test must FAIL with the change and PASS without it (git stash)
  3. ./check <PROPERTY> with VERIF_REPO=<worktree> must report a VIOLATION
Writes /verif/seeded/<name>/{patch.diff, demo, meta.json} when --keep-as is given.
"""
import argparse, glob, json, os, re, shutil, subprocess, sys, time
ENV = dict(os.environ, GOFLAGS="-mod=mod", GOPROXY="off", GOSUMDB="off")

def sh(cmd, cwd, timeout=900, env=ENV):
    r = subprocess.run(cmd, shell=True, cwd=cwd, env=env, stdout=subprocess.PIPE, stderr=subprocess.STDOUT, text=True, timeout=timeout)
    return r.returncode, r.stdout

ap = argparse.ArgumentParser()
ap.add_argument("prop"); ap.add_argument("worktree"); ap.add_argument("outdir")
ap.add_argument("--budget", type=int, default=40)
ap.add_argument("--keep-as")
ap.add_argument("--checks", default=None, help="comma separated properties to run (default: the property)")
ap.add_argument("--tier", default="quick")
a = ap.parse_args()
wt = a.worktree
res = {"property": a.prop, "worktree": wt}
demos = [f for f in subprocess.check_output("git ls-files --others --exclude-standard", shell=True, cwd=wt, text=True).split() if f.endswith("_test.go")]
res["demo_files"] = demos
rc, diff = sh("git diff", wt)
res["patch_lines"] = len(diff.splitlines())
res["files_changed"] = re.findall(r"^diff --git a/(\S+)", diff, re.M)
# 1. existing suite with the change, demo moved aside
for d in demos:
    os.rename(f"{wt}/{d}", f"{wt}/{d}.aside")
rc_b, out_b = sh("go build ./... && go test -vet=off -count=1 ./pkg/... 2>&1 | tail -15", wt)
for d in demos:
    os.rename(f"{wt}/{d}.aside", f"{wt}/{d}")
res["suite_with_change_ok"] = rc_b == 0 and "FAIL" not in out_b
# 2. demo with and without
pkgs = sorted({"./" + os.path.dirname(d) for d in demos})
names = []
for d in demos:
    names += re.findall(r"^func (Test\w+)\(", open(f"{wt}/{d}").read(), re.M)
runre = "^(" + "|".join(names) + ")$"
rc_w, out_w = sh(f"go test -vet=off -count=1 -run '{runre}' {' '.join(pkgs)} 2>&1 | tail -25", wt)
res["demo_with_change_fails"] = ("FAIL" in out_w)
# (no git stash: the stash is shared between all worktrees of a repository)
open(f"{a.outdir}/.confirm.patch", "w").write(diff)
sh("git checkout -- .", wt)
rc_o, out_o = sh(f"go test -vet=off -count=1 -run '{runre}' {' '.join(pkgs)} 2>&1 | tail -25", wt)
rc_a, out_a = sh(f"git apply {a.outdir}/.confirm.patch", wt)
if rc_a != 0:
    print("could not re-apply the change:", out_a); sys.exit(3)
res["demo_without_change_passes"] = ("FAIL" not in out_o and "ok" in out_o)
res["demo_output_with"] = out_w[-1500:]
res["demo_output_without"] = out_o[-600:]
print(json.dumps({k: v for k, v in res.items() if not k.startswith("demo_output")}, indent=1))
if not (res["suite_with_change_ok"] and res["demo_with_change_fails"] and res["demo_without_change_passes"]):
    print("NOT CONFIRMED"); print(out_b[-800:]); print(out_w[-1500:]); print(out_o[-800:])
    sys.exit(3)
# 3. our checks
checks = (a.checks or a.prop).split(",")
res["checks"] = {}
for c in checks:
    t0 = time.time()
    env = dict(os.environ, VERIF_REPO=wt)
    tag = "seeded-" + os.path.basename(wt.rstrip("/"))
    r = subprocess.run(["/verif/check", c, "--tier", a.tier, "--budget", str(a.budget), "--tag", tag, "--no-evidence", "--no-minimise"], env=env, stdout=subprocess.PIPE, stderr=subprocess.STDOUT, text=True)
    lines = [l for l in r.stdout.splitlines() if not l.startswith("build[")]
    first = [l for l in lines if l.startswith("  ")][:2]
    res["checks"][c] = {"exit": r.returncode, "wall_s": round(time.time() - t0, 1), "violation": "VIOLATION" in r.stdout, "first": first, "summary": [l for l in lines if " runs (" in l][:1]}
    print(c, "exit", r.returncode, "| ".join(x.strip()[:300] for x in first))
    shutil.rmtree(f"/verif/.build/{tag}", ignore_errors=True)
if a.keep_as:
    dst = f"/verif/seeded/{a.keep_as}"
    os.makedirs(dst, exist_ok=True)
    open(f"{dst}/patch.diff", "w").write(diff)
    for d in demos:
        shutil.copy(f"{wt}/{d}", f"{dst}/{os.path.basename(d)}")
    if os.path.exists(f"{a.outdir}/notes.md"):
        shutil.copy(f"{a.outdir}/notes.md", f"{dst}/notes.md")
    meta = {"breaks_property": a.prop, "files_changed": res["files_changed"], "demo": [{"file": os.path.basename(d), "place_in": os.path.dirname(d), "run": f"go test -vet=off -count=1 -run '{runre}' ./{os.path.dirname(d)}/"} for d in demos],
            "needs_to_manifest": "see notes.md (written by the sub-agent that produced the change)",
            "confirmed": {"existing_suite_passes_with_change": res["suite_with_change_ok"], "demo_fails_with_change": res["demo_with_change_fails"], "demo_passes_without_change": res["demo_without_change_passes"]},
            "what_i_ran": ["go build ./... && go test -vet=off -count=1 ./pkg/... (demo moved aside)", f"go test -run '{runre}' with the change and after git stash",
                           f"VERIF_REPO=<scratch worktree with the change> ./check <ID> --tier {a.tier} --budget {a.budget}"],
            "checks": res["checks"]}
    json.dump(meta, open(f"{dst}/meta.json", "w"), indent=1)
    print("kept as", dst)
