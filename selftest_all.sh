#!/bin/bash
# determinism self-test of every property: same seeds in 15 processes at GOMAXPROCS 1/4/16
cd /verif
for id in $(python3 -c "import json;print(' '.join(c['property_id'] for c in json.load(open('MANIFEST.json'))['checks']))"); do
  ./check $id --selftest --runs ${1:-200} --reps ${2:-5} --tag selftest 2>&1 | grep -v "^build" | head -6
done
