#!/usr/bin/env python3
"""Regenerates DESIGN.md section 12 from /verif/mutants, /verif/seeded/*/meta.json and seeded/NOTES.json."""
import json, glob, os
p='/verif/DESIGN.md'
s=open(p).read()
i=s.index("## 12. Sensitivity: catalogue mutants")
j=s.index("## 13. False alarms found")
notes=json.load(open('/verif/seeded/NOTES.json'))
rows=[]; n=0; first=0
for d in sorted(glob.glob('/verif/seeded/*/meta.json')):
    m=json.load(open(d)); name=d.split('/')[3]; n+=1
    ch=", ".join(f"{k}: {(v['first'][0].strip().split(':')[0] if v['first'] else ('VIOLATION' if v['violation'] else 'not detected'))}" for k,v in m['checks'].items())
    if name not in notes: first+=1
    rows.append(f"| {name} | {m['breaks_property']} | {', '.join(m['files_changed'])} | {ch} | {notes.get(name,'caught by the check as it stood')} |")
muts=[]
for f in sorted(glob.glob('/verif/mutants/*.json')):
    m=json.load(open(f)); muts.append((os.path.basename(f)[:-5], m['property'], m['desc']))
mt="\n".join(f"| {a} | {b} | {c} |" for a,b,c in muts)
sec=f'''## 12. Sensitivity: catalogue mutants and independently seeded changes

**Catalogue mutants** (`/verif/mutants/*.json`, applied with `./check <id> --mutant <file>` to the generated
copies only). Every one is detected within a 6-10 s budget except the two marked *equivalent*, which must
stay silent and do:

| mutant | property | change |
|--------|----------|--------|
{mt}

*Equivalent (silent, as they should be):* `c07-no-prune` (a closed plugin that stays listed after a
StateChange is skipped by the next relay and pruned by the next non-StateChange request: no observable
difference), `c13-mounts-sorted-by-name` (a parent path is a prefix of its children, so plain string order
also puts parents first).

**Independently seeded changes** (`/verif/seeded/<name>/`: `patch.diff`, the sub-agent's demonstration,
`notes.md`, `meta.json`). Each was produced by a fresh sub-agent that was given only the property text (later
waves: plus a one-line steer away from ideas already used) and a scratch worktree; it compiles, passes the
existing suite, and comes with a demo test that fails with the change and passes without it — all three
re-confirmed by `seeded_eval.py` in the scratch worktree before the change was kept. The checks were then run
against the worktree (`VERIF_REPO=<worktree> ./check …`, equivalent to applying the patch to /repo and undoing
it; /repo itself was never touched). {n} changes so far; {first} were caught by the checks as they stood, the
others were missed (or would have been) and led to the strengthening noted in the last column, after which
all {n} are caught within the quick budget (one of them, C02-args-marker-only-then-marker-set, on the tree it
was written for: it led to fix 5fd486c, which makes the same edit harmless):

| seeded change | breaks | files | detected by (oracle) | note |
|---------------|--------|-------|----------------------|------|
''' + "\n".join(rows) + "\n\n"
open(p,'w').write(s[:i]+sec+s[j:])
print(n, "seeded,", first, "caught as the checks stood")
