#!/usr/bin/env python3
"""Regenerates DESIGN.md section 12 from /verif/mutants, /verif/seeded/*/meta.json and seeded/NOTES.json."""
import json, glob, os
p='/verif/DESIGN.md'
s=open(p).read()
i=s.index("## 12. Sensitivity: catalogue mutants")
j=s.index("## 13. False alarms found")
notes=json.load(open('/verif/seeded/NOTES.json'))
rows=[]; n=0; first=0
for d in sorted(glob.glob('/verif/seeded/*/meta.json')):
    m=json.load(open(d)); name=d.split('/')[3]; n+=1
    ch=", ".join(f"{k}: {(v['first'][0].strip().split(':')[0] if v['first'] else ('VIOLATION' if v['violation'] else 'not detected'))}" for k,v in m['checks'].items())
    nt=notes.get(name,'')
    if not (nt.startswith('missed') or nt.startswith('would have been missed') or nt.startswith('the check could not be built') or 'missed it as it stood' in nt or nt.startswith('NOT detected') or 'not detected' in nt.lower()[:40]): first+=1
    rows.append(f"| {name} | {m['breaks_property']} | {', '.join(m['files_changed'])} | {ch} | {notes.get(name,'caught by the check as it stood')} |")
muts=[]
for f in sorted(glob.glob('/verif/mutants/*.json')):
    m=json.load(open(f)); muts.append((os.path.basename(f)[:-5], m['property'], m['desc']))
mt="\n".join(f"| {a} | {b} | {c} |" for a,b,c in muts)
sec=f'''## 12. Sensitivity: catalogue mutants and independently seeded changes

**Catalogue mutants** (`/verif/mutants/*.json`, applied with `./check <id> --mutant <file>` to the generated
copies only). Every one is detected within a 6-10 s budget except the two marked *equivalent*, which must
stay silent and do:

| mutant | property | change |
|--------|----------|--------|
{mt}

*Equivalent (silent, as they should be):* `c07-no-prune` (a closed plugin that stays listed after a
StateChange is skipped by the next relay and pruned by the next non-StateChange request: no observable
difference), `c13-mounts-sorted-by-name` (a parent path is a prefix of its children, so plain string order
also puts parents first).

**Independently seeded changes** (`/verif/seeded/<name>/`: `patch.diff`, the sub-agent's demonstration,
`notes.md`, `meta.json`). Each was produced by a fresh sub-agent that was given only the property text (later
waves: plus a one-line steer away from ideas already used) and a scratch worktree; it compiles, passes the
existing suite, and comes with a demo test that fails with the change and passes without it — all three
re-confirmed by `seeded_eval.py` in the scratch worktree before the change was kept. The checks were then run
against the worktree (`VERIF_REPO=<worktree> ./check …`, equivalent to applying the patch to /repo and undoing
it; /repo itself was never touched). {n} changes so far; {first} were caught by the checks as they stood, the
others were missed (or would have been) and led to the strengthening noted in the last column, after which
all but one (the exception is C15-event-handler-table-published-before-filled, see its note and section 9) are caught within the quick budget (one of them, C02-args-marker-only-then-marker-set, on the tree it
was written for: it led to fix 5fd486c, which makes the same edit harmless):

| seeded change | breaks | files | detected by (oracle) | note |
|---------------|--------|-------|----------------------|------|
''' + "\n".join(rows) + "\n\n"
# automated mutation sweep
import subprocess, collections
try:
    rs=[json.loads(l) for l in open('/verif/mutsweep/results.jsonl')]
except Exception:
    rs=[]
if rs:
    cnt=collections.Counter(r['outcome'].split(' (')[0] for r in rs)
    by=collections.Counter(r.get('by') for r in rs if r['outcome']=='detected')
    tri=subprocess.run(['python3','/verif/mutsweep/triage.py'],stdout=subprocess.PIPE,text=True).stdout
    surv=[l for l in tri.splitlines() if l.startswith('survivors:')]
    untri=[l for l in tri.splitlines() if l.startswith('UNTRIAGED')]
    gaps=sorted({r['gap'] for r in rs if r.get('gap')})
    sec+=f"""**Automated mutation sweep** (`mutsweep/`: `mutgen` enumerates syntactic mutations - negated conditions, swapped
comparison and boolean operators, deleted assignments and calls, `continue`/`break` swaps, integer literals +1 -
in the files the claimed properties are anchored in; `mutsweep.py` samples them with a seeded PRNG, applies each
in a scratch worktree under /tmp, keeps those that compile and pass the existing suite, and runs the checks
covering the file against the worktree with a reduced budget of 12 s; `triage.py` classifies every survivor and
fails if one is unclassified). So far {len(rs)} mutants: {cnt.get('does-not-compile',0)} do not compile,
{cnt.get('killed-by-existing-tests',0)} are killed by the existing tests, {cnt.get('detected',0)} pass the existing tests and
are detected by a check ({', '.join(f'{k}: {v}' for k,v in sorted(by.items()))}), {cnt.get('survived',0)} survive.
{surv[0] if surv else ''}{' UNTRIAGED: '+str(len(untri)) if untri else ''}.
The survivors were read one by one: they sit in helpers no claimed property covers (formatting, string parsing,
OCI-to-NRI conversion, option setters, launched plugins) or are behaviour-preserving (reasons per site in
`mutsweep/triage.py`), except for the gaps listed here, each closed and pinned by a catalogue mutant:
""" + "\n".join(f"* {g}" for g in gaps) + "\n\n"
open(p,'w').write(s[:i]+sec+s[j:])
print(n, "seeded,", first, "caught as the checks stood")
